#!/venv/bin/python
"""EOL-preserving exact string replacement in a repo file: sub.py FILE <<< JSON [[old,new],...] or --py script"""
import json, sys
path = sys.argv[1]
pairs = json.load(sys.stdin)
s = open(path, newline='').read()
crlf = '\r\n' in s
for old, new in pairs:
    if crlf:
        old = old.replace('\r\n', '\n').replace('\n', '\r\n')
        new = new.replace('\r\n', '\n').replace('\n', '\r\n')
    n = s.count(old)
    if n != 1:
        sys.exit(f'{path}: expected exactly one occurrence, found {n}: {old[:80]!r}')
    s = s.replace(old, new)
open(path, 'w', newline='').write(s)
print('ok', path, 'crlf' if crlf else 'lf')
