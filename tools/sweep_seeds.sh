#!/bin/bash
# usage: tools/sweep_seeds.sh [parallel]  -- runs, for every filed seed, the check named first in its meta.json detected_by
# against the patched scratch worktree; writes seeded/DETECTION.tsv (seed, check, outcome)
par=${1:-3}
cd /verif
python3 - > /tmp/sweep_jobs.txt <<'PY'
import json, glob, re, os
for d in sorted(glob.glob('/verif/seeded/C*')):
    mp = d + '/meta.json'
    if not os.path.exists(mp) or not os.path.exists(d + '/patch.diff'):
        continue
    m = json.load(open(mp))
    det = m.get('detected_by', '')
    c = re.search(r'check (C\d\d)', det)
    if not c:
        continue
    sid = os.path.basename(d)
    if os.path.exists(f'/tmp/ts/sweep_{sid}.txt') and os.path.getsize(f'/tmp/ts/sweep_{sid}.txt') > 0 and os.environ.get('SWEEP_RESUME'):
        continue
    print(f"/verif/tools/try_seed_wt.sh {d}/patch.diff {c.group(1)} quick | head -1 > /tmp/ts/sweep_{sid}.txt 2>&1")
PY
wc -l /tmp/sweep_jobs.txt
/verif/tools/pool.sh $par /tmp/sweep_jobs.txt
for f in /tmp/ts/sweep_*.txt; do sid=$(basename $f .txt); sid=${sid#sweep_}; echo -e "$sid\t$(cat $f | sed 's/^[^:]*: //')"; done > /verif/seeded/DETECTION.tsv
sed -i "1i # re-verification sweep (tools/sweep_seeds.sh): seed, result of its detecting check (quick tier) on the final tree + patch" /verif/seeded/DETECTION.tsv
