#!/bin/bash
# usage: tools/seed_trials.sh <tag> <check-id>   -- trial only (no confirmation) of every delivered change of one agent
tag=$1; id=$2
for d in /tmp/seed/out/$tag/*/; do
  [ -f $d/patch.diff ] || continue
  /verif/tools/try_seed_wt.sh $d/patch.diff $id quick | head -1
done
