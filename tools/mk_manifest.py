#!/venv/bin/python
"""Generate /verif/MANIFEST.json from the table below (kept in one place so it always validates)."""
import json
import sys
from pathlib import Path

ROOT = Path(__file__).resolve().parent.parent
BASELINE = ("cd /repo && /venv/bin/python -m pytest -ra -q -p no:cacheprovider --timeout=900 "
            "--continue-on-collection-errors")

# id -> (engine, technique, level text, level note, design ref)
CHECKS = {
    'C01': ('H', 'explicit-state exploration of provider transaction histories on the real provider+consumer stack (loop-back transport), canonical snapshot equality after every prefix',
            'Extensions: context states removed through the entity interface in a descriptor transaction (first / first two / all but last / all), pre-state with three patient states. '
            'Every sequence of 2 events over a 48-event alphabet (all transaction kinds through both interfaces, contexts, location, '
            'descriptor create/update/delete/re-create, parent+child in one transaction) plus every event from 4 non-initial '
            'pre-states (thorough: depth 3 over an 18-event core alphabet and depth 2 from the pre-states) is executed on a real '
            'SdcProvider + SdcConsumer + ConsumerMdib connected by an in-memory transport (real serialisation, schema validation, '
            'parsing). After every prefix the canonical consumer snapshot must equal the provider snapshot (implied == explicit, '
            '1 ms timestamps, clock time excluded) and the handles named by the consumer observables must be exactly the changed '
            'entities. Failing histories are minimised before being reported.',
            'Transport, HTTP server, ws-discovery, clock, uuid4 and Thread.start are harness stand-ins; one MDIB file '
            '(tests/mdib_tns.xml); depth and alphabet bounds as stated in the evidence.', '3/C01'),
    'C02': ('H', 'explicit-state exploration of provider transaction histories incl. all ordered pairs of related operations inside one transaction; version and referential invariants on consecutive canonical snapshots',
            'Extensions: distribution sample array metric (a metric kind none of the MDIB files has) created / updated / valued / deleted / re-created through both interfaces; late-raise[...] events (application code raises after the commit: the commit stands); a changed set of children requires a higher DescriptorVersion of the parent; in-place list edit and signal create/delete events in the alphabet; aborted transactions (pre-commit handler raises) between a delete and a re-create of a handle, pre-state with a removed handle whose versions were above zero. '
            'All 2-event histories over the 48-event alphabet, 60 multi-operation descriptor transactions (every ordered pair of '
            '9 related operations on parent / grandparent / child / siblings / descriptor+state through the classic and the entity '
            'interface, plus triples) from 5 pre-states and followed by every core event (thorough: depth 3, pairs of such '
            'transactions). After every step: MdibVersion +1 exactly iff content changed, 0 for empty/aborted; per handle the '
            'version never drops below the maximum the harness ever saw (survives delete/re-create) and rises when content '
            'changes; one (handle, version) is never published with two contents (snapshots and transaction result lists); '
            'objects not named by the transaction result are unchanged; state->descriptor, DescriptorVersion, single-state and '
            'parent references hold.',
            'Provider side only; one MDIB file; depth/alphabet bounds as in the evidence. Version bookkeeping of the oracle is '
            'independent of handle_version_lookup.', '3/C02'),
    'C03': ('H+I', 'exhaustive crash-point enumeration over transaction bodies plus exhaustive enumeration (by reflection) of nested attribute paths of every handed-out object, against full canonical MDIB snapshots',
            'Extensions: the vetoing pre-commit handler runs after the own handler of the role providers (their preparations must be undone too); refreshed multi-state entity that learns a new state in update(); rejected calls whose exception is handled inside the transaction body (differential oracle: the same transaction without the call); commit paths the API could make fail half-way (state that exists in the mdib, foreign context-state handle through the entity interface, changed Handle of a descriptor copy); entities refreshed with entity.update() after a later commit made them stale are handed-out objects too (nested writes must stay private); every keyword combination of mk_context_state / add_state (handle none/existing/new x adjust_state_version x set_associated) as all-or-nothing calls; with periodic reports on, writing to a transaction result must not change the states retained for the periodic report of that commit. '
            'For 13 transaction bodies covering every transaction kind through the classic and the entity interface, an exception is '
            'raised after every non-empty ordered selection of the body\'s API calls and in the pre-commit hook; 29 calls the API must '
            'reject and 3 commit paths the API can make fail are issued alone and after a valid modification; every nested attribute '
            'path (reflection depth 2, thorough 3; scalars, list members, empty lists, extension lists) of the objects handed out by 11 '
            'transaction getters, 6 entity getters and 6 transaction results is overwritten in an aborted transaction, after the commit, '
            'on an entity copy and on the transaction result. After each case the full canonical snapshot (content, all version '
            'counters, removed-version look-up, index scan) must equal the one before and the transaction observable must not fire.',
            'Provider-side ProviderMdib with role providers, no subscriber; commit failures other than those reachable through the API '
            '(e.g. a table operation raising spontaneously) are not injected; tr.actual_descriptor() is a documented read accessor to '
            'the live object and is not treated as a copy.', '3/C03'),
    'C04': ('H+S', 'explicit-state exploration of transaction histories with a recording subscriber (wire messages re-parsed with lxml and validated by a harness-built XMLSchema); schedule exploration of concurrent writers for ordering',
            'Extensions: a channel handle that exists first under one MDS and, after its removal, under the other one (SourceMds of the later reports); statement-granularity pass of the concurrent-writer part; in-place list edits (extension, body site) in the periodic-report histories; every Crt/Upt part of a DescriptionModificationReport carries exactly the committed states of its descriptor (all context states); slow subscriber on the async managers: the k-th delivery takes 4-61 virtual seconds on a virtual asyncio loop, reports must still arrive in MdibVersion order and none may be lost. '
            'Every event of the 50-event alphabet, all pairs over the 18-event core alphabet, pairs over two-MDS events on a two-MDS MDIB, '
            'the async subscription manager and the periodic-report store are executed with a recording subscriber. Every message on '
            'the wire is validated with an XMLSchema the harness builds from src/sdc11073/xsd (independent of the library validate '
            'flag) and re-parsed with plain lxml: MdibVersion/SequenceId/InstanceId equal the committed group; the multiset of '
            'reported (handle, version) equals the snapshot diff of that commit (no unchanged state, no missing one, none twice, '
            'right report category and modification type); canonical content equals the table content at the commit; every '
            'SourceMds equals the MDS ancestor found by walking parents; stored periodic copies equal the snapshot of the version '
            'they are labelled with and one real periodic-loop pass is checked on the wire.',
            'Single subscriber; content comparison goes through the library reader (versions, handles, grouping through lxml only); '
            'ordering under concurrent writers is covered by the schedule-exploration part when present in the evidence.', '3/C04'),
    'C05': ('I', 'bounded-exhaustive enumeration of instances of every declared data-type / message / container class against the bundled XSD (independent libxml2 validator), canonical round-trip equality, write idempotence and object-identity rules',
            'Extensions: the same value written with other prefixes for the same namespaces after a write with the default ones (schema-valid, same value when parsed); read-your-write oracle (an assigned scalar is what is read back - no implied value may replace a falsy one); list-typed members re-spelled with other white space (tab / line break character references, indentation) must parse to the same value; hand-written XML members (HeaderInformationBlock.reference_parameters) in the value domain, purity and round-trip oracles; write / in-place edit of scalar lists / write again must equal a never-written equal value; exponent-form decimals in list attributes, the empty string for plain xsd:string members. '
            '225 classes found by reflection (participant model, message model, WS-Addressing / Eventing / Discovery / DPWS / MEX, SOAP fault, '
            'all state and descriptor containers; 174 validated as their named XSD type through a harness-generated wrapper schema or as global '
            'element, the rest inside their owners). Per class: the base instance (members that the library or the XSD requires), every single '
            'member deviation over the member domain (absent where the XSD allows it, every enum member up to 6, every xsi:type substitution whose '
            'XSD type derives from the declared one, lists of length 1/2/all-substitutions, XML-special and non-ASCII strings, boundary numbers '
            'chosen inside the XSD simple type: signedness, dateTime, language, anyURI, TimeZone pattern, required attributes, choices), nested '
            'values populated to depth 2, two fully populated variants; thorough: every pair of members x 2 values. On every instance: '
            'schema-valid; parse(write(x)) canonically equal to x (an absent member with documented default reads as that default); write(x) twice '
            'identical and the first output untouched; write(parse(write(x))) identical and the parsed-from document untouched; two parses share no '
            'mutable member with each other or with class defaults; explicitly written implied value parses equal to absent.',
            'Values outside the XSD value space are not generated (the property quantifies over the schema value space); depth-3 nesting and triples '
            'are not enumerated; msg_types.GetMdibResponse is round-trip only (raw element tree member). A small XSD structure model (mcx/xsdmodel.py) '
            'is used only to keep inputs inside the schema space, validity is always decided by libxml2.', '3/C05'),
    'C06': ('H+S', 'exhaustive enumeration of delivery sequences (each report 0, 1 or 2 times, any order) on the real consumer endpoint; id-change/reload histories; preemption-bounded schedule exploration of initial load / reload against deferred report delivery',
            'Extensions: two consumer MDIBs in one process: GetMdib of A answered at n, commit n+1 buffered by A while B reloads, A must end as a mirror; InstanceId-only changes between absent / 0 / 1 / 2^40 with the SequenceId unchanged; race scenarios in which the provider leaves the context states out of GetMdib (second request during the load); histories whose report is rejected half-way after a lost delete; statement-granularity pass over mdib/consumermdib*.py; '
            '(a) For 10 (thorough 16) provider histories the notifications are captured on the wire and every delivery sequence in which '
            'each of the first 4 (thorough 5) messages occurs 0, 1 or 2 times in any order, of length <= n+1 (plus every single drop, '
            'duplicate, adjacent swap and replay for longer wire lists) is posted to the real consumer endpoint (message converter, '
            'dispatcher, subscription, ConsumerMdib); after every delivery MdibVersion and every entity version are non-decreasing, a '
            'stale or duplicated report changes nothing, the lookups pass the index scan, every state held is one the provider published '
            'for that handle, nothing escapes the endpoint, and complete in-order delivery yields the exact mirror. (b) 81 histories with a '
            'SequenceId and/or InstanceId change: nothing changes until reload_all, the change is signalled, afterwards exact mirror again. '
            '(c) init_mdib / reload_all racing with a writing provider and deferred in-order delivery (three real threads under the baton '
            'scheduler; points at the mdib, transaction and notification-buffer locks and at queue operations; preemption bound 1, one '
            'scenario with bound 2; thorough: bound 3 and all locks): at quiescence exact mirror, no exception, consistent lookups.',
            'Consumer state is restored between delivery sequences from deep copies of the tables (self-checked); provider restart is '
            'modelled by assigning new ids; (c) models the deferred dispatcher by a FIFO between endpoint and a delivery thread.', '3/C06'),
    'C07': ('S', 'stateless preemption-bounded schedule exploration (CHESS-style iterative context bounding) of real request and writer threads under a cooperative baton scheduler; scheduling points at every lock acquire/release, plus a statement-granularity pass inside the handler and commit functions',
            'Extensions: writer that creates a context state and then deletes it in a context transaction of its own (no report is sent for that, but it is a commit): one MdibVersion must never name two contents; statement-granularity pass - every statement of the Get handlers, the MDIB reconstruction and the commit path is a scheduling point (sys.settrace line events in the scheduled threads), one preemption (thorough two), 12 scenarios; scenarios in which the requested handle itself is created / deleted by the concurrent transaction; schedule tree split over the workers (run_partitioned), thorough caps per subtree group. '
            '18 scenarios of 1-2 Get request threads (GetMdib, GetMdDescription all/one handle, GetMdState all/some handles, '
            'GetContextStates all/one descriptor - real request bytes through the real provider dispatch chain and handlers) against '
            '1-2 writer threads (metric, location, patient, descriptor update/create/delete transactions) run as real Python threads of '
            'which only the baton holder executes. Every lock the library creates (mdib lock, transaction lock, all table locks, '
            'transaction-id, subscription-table and client-pool locks) is replaced by an instrumented lock whose acquire and release '
            'are scheduling points; blocking is modelled, deadlock is detected. All schedules within a weighted preemption bound of 2 '
            '(thorough 3; a preemption at an mdib-level lock costs 1, at a table/pool lock 2) are executed, each on a fresh provider. '
            'The harness snapshots the MDIB inside every commit; each response is re-parsed and its stated MdibVersion, entity set and '
            'every descriptor/state are compared with the snapshot of exactly that version.',
            'Lock granularity with bound 2/3, statement granularity (anchor functions only) with bound 1/2; sync subscription manager without subscriber; one schedule is replayed twice per run as determinism '
            'self-check.', '3/C07'),
    'C08': ('H+S', 'explicit-state breadth-first search with canonical-state dedup over eventing histories on the four real subscription managers inside the real provider dispatch chain, against a reference model of subscription liveness on the same virtual clock; preemption-bounded schedule exploration (lock and statement granularity) of Renew/GetStatus racing with report delivery and housekeeping',
            'Extensions: subscriber A sends a pretty-printed (line-wise, indented) action filter; real notification SoapClient against every HTTP status x body shape (an error answer without body is a failed delivery); schedule part (c08_sched): Renew(5) / Renew(99) / GetStatus of a live subscription (11 s granted, 8 s elapsed) served in one thread while another thread delivers a metric report and a third runs one housekeeping pass, scheduling points at every lock operation and every statement of provider/subscriptionmgr*.py, all schedules with one preemption (thorough: two, all four managers): the report must reach the subscriber, the subscription must stay in the table, GetStatus afterwards agrees with the model; mid-delivery events: while a report is handed to the first subscriber the other one unsubscribes (second real thread) or all subscriptions expire - nothing may reach it afterwards; timeout faults also in the quick tier. '
            'BFS to depth 4 (thorough 6) over 34 events - Subscribe (expires omitted / 5 / 99 > maximum), Renew, GetStatus, Unsubscribe, '
            'the same three naming an unknown identifier, metric and alert reports, clock ticks of 2 s and 4 s across expiry, one pass of '
            'the real housekeeping loop body, delivery-fault mode per subscriber (ok, HTTP 500, refused; thorough also timeout, not '
            'connected), stop_all with and without end messages - for two subscribers (A: EndTo, two actions; B: no EndTo, one action) '
            'whose requests are built by the real consumer-side ConsumerSubscription class, on path- and reference-parameter '
            'dispatching, sync and async managers. After every event: the set of subscribers handed the notification equals the live, '
            'filter-matching ones of a 30-line reference model; granted expiry <= min(requested, maximum); Renew/GetStatus within 0.01 s '
            'of the model; requests for unknown / unsubscribed / expired / failed subscriptions are faults and change nothing; '
            'stop_all(True) sends exactly one SubscriptionEnd per live subscription to EndTo else NotifyTo; the subscription table '
            'passes the index scan.',
            'One provider object is reused between histories (subscription table, client pool, wire log, clock, uuid counter are '
            'reset); expiry instants are never hit exactly; "sent" means handed to the subscriber-facing SOAP client.', '3/C08'),
    'C09': ('I+H', 'exhaustive enumeration of request sequences on the real provider stack (worker loop body driven explicitly) and of all orderings of response and reports on the real consumer OperationsManager; oracle = regular language of invocation-state words per transaction id',
            'Extensions: provider replaced by a new instance at the same address (transaction ids restart), consumer restart(), second operation with another handler outcome - the second result handle completes with the states of its own transaction; invoke / un-register / invoke again histories; percent and brace characters in exception texts; statement- and bytecode-granularity pass of the concurrent-request part; raising handlers with awkward exception texts and types (control characters, XML markup, non-ASCII, lone surrogates, empty, 70 kB, CR/LF): the Fail report with error information must still be produced; bursts of 9-13 queued requests against the 10-entry operation queue (a Wait answer must be followed by Start and a final state); consumer handle completion judged by a reference rule (failing response completes at once, otherwise all parts up to the first final report); schedule part: 2-3 concurrent request threads, bound 2, transaction ids unique. '
            'Provider: every single request over 5 operation kinds (SetString, SetValue, Activate, SetContextState, SetAlertState) x '
            'direct/queued x handler {real, ok, ok-with-modification, returns Fail, raises}, the unknown operation, and pairs of requests '
            'from two consumers are sent through the real consumer service clients; the real SCO registry and worker loop body execute '
            'them. Per transaction id the word (response state, report states in wire order) must be Wait.(Wait Start F) or F.(F) with '
            'exactly one distinct final state, ids unique and increasing, raise => Fail with error information, unknown operation => '
            'Fail and unchanged snapshot, result handles complete with the final state and the delivered parts. Consumer: every position '
            'of the response among the 1-3 reports for all five final states, a look-back buffer filled with up to 51 foreign reports, '
            'and all interleavings of two overlapping transactions are driven on the real OperationsManager: the result handle '
            'completes exactly once, with the final state and every part delivered before completion, in order.',
            'The consumer rendez-vous is fully inside one lock, so lock-granularity schedules equal the enumerated sequential orderings; '
            'races that need a preemption inside generate_transaction_id are the subject of the schedule explorer (not part of this '
            'check yet).', '3/C09'),
    'C10': ('H', 'explicit-state exploration of histories of set_location, SetContextState invocations (real consumer client, provider SCO worker body, role provider) and context transactions; invariant on the context table and on every EpisodicContextReport',
            'Extensions: rejected second proposals that pass the up-front check (new associated state + unknown state handle) followed by valid requests; two-proposal requests whose second proposal is rejected (unknown state handle) and data-only updates next to a new associated state; location context states proposed through SetContextState, mixed with set_location; statement-granularity pass of the race part; schedule part: a SetContextState request thread racing with a provider-side context change of the same descriptor (3 writers x 2-4 proposals, preemption bound 1, thorough 2), invariants evaluated on the table recorded at every commit. '
            'All 2-event histories over 26 events and all 3-event histories over a 7-event core (thorough: larger core): SetContextState '
            'requests with one or two proposals (new / update of the first or second existing state / stale handle x NoAssociation, '
            'PreAssociation, Associated, Disassociated, including two associated proposals for one descriptor) sent by the real consumer '
            'context client and executed by the real operation worker loop body and role provider; SdcProvider.set_location; library '
            'context transactions. After every event: at most one associated state per context descriptor; a state that stopped being '
            'associated is Disassociated with UnbindingMdibVersion == the MdibVersion of that commit and BindingEndTime set; a newly '
            'associated one has BindingMdibVersion == that MdibVersion and BindingStartTime; context-state handles unique and distinct '
            'from descriptor handles; the same on the states inside every EpisodicContextReport on the wire; a request answered with '
            'Fail leaves the full canonical snapshot unchanged.',
            'Only the patient context has a SetContextState operation in tests/mdib_tns.xml; queued operations are executed by running '
            'the real worker loop body synchronously.', '3/C10'),
    'C11': ('H+S', 'explicit-state BFS with canonical-state dedup over table operation histories on the real MultiKeyLookup tables, plus MDIB history exploration, consumer MDIB after lost reports, and preemption-bounded schedule exploration (statement granularity) of a reader under the table lock against every locked mutator; invariant = indices equal an independent regrouping of table.objects',
            'Extensions: consumer sync_context_states after context states were deleted without report (tables judged; the method raises on the unchanged tree after its first removal); get_one probed for every key of the attribute domains after every operation, with look-ups between the replayed operations (an answer remembered by an index must not survive a table change); unexpected exceptions of table operations are violations; re-created alert signal after a lost delete report; (c) consumer MDIB after every subsequence of the reports of histories whose later reports are then rejected half-way (lost delete before a re-create); (d) schedule part c11_sched: a reader holding the table lock against every locked mutator of MultiKeyLookup, scheduling points at every statement of multikey.py; '
            'Breadth-first search over add (3 variants) / remove (3 variants) / attribute write + update_object / clear / bulk add / '
            'update_objects / duplicate-key add on the real DescriptorsLookup, StatesLookup, MultiStatesLookup, a generic 3-index '
            'table and the subscription-table declaration, 2-3 stub objects with colliding attribute domains, depth 5-6 (thorough 5-9), '
            'states merged on (attribute values, membership); after every transition every index dict, the back-reference map and '
            'get_one are compared with a regrouping of table.objects computed by the harness, and a rejected insert must leave the '
            'table equal to the reference model. MDIB level: all 2-event histories over 27 events that touch indexed attributes on '
            'provider + consumer + subscription tables.',
            'Attribute writes are always followed by update_object; updates that would create a duplicate unique key are outside the '
            'alphabet; the key functions of the index declarations are trusted, their maintenance is what is checked.', '3/C11'),
    'C12': ('H', 'exhaustive enumeration by reflection over all declared data-type/container classes of construct / parse(absent) / parse(present) / deepcopy / mk_copy / nested-write sequences',
            'Extensions: the same XML parsed twice; copies (mk_copy, deepcopy) of instances whose lists / extension values are empty, with the source kept; a fresh instance that cannot be constructed any more is a violation; populated instances carry extension elements; xml elements count as mutable members in the identity check; the instances\' own storage (every mutable object in __dict__, e.g. the storage of observable properties) and the plain attribute node. '
            'For each of the ~250 classes with declared properties six independently obtained instances (constructor, parse of an element '
            'with every optional/defaulted member absent, parse of a fully written default, deepcopy, mk_copy, second parse) are '
            'compared by identity of every nested mutable object (depth 3) with each other and with the class-level default objects; '
            'then every nested attribute path of every instance (scalars, absent scalars, lists including empty ones, extension lists) '
            'is written and a freshly constructed instance, a freshly parsed instance and all other instances must keep their canonical '
            'value. The sequence "obtain - write - look at a new instance" is what the unit tests never do.',
            'Classes that cannot be constructed without unknown arguments (19 abstract/helper classes) are skipped and counted; '
            'reflection depth 3.', '3/C12'),
    'C13': ('I', 'bounded-exhaustive enumeration of all single structure-aware mutations, HTTP framing and header variants and short raw byte strings of every request type the library produces, each executed on a pristine provider+consumer world through the real DispatchingRequestHandler and message converters',
            'Extensions: a deferred worker loop that returns instead of waiting has ended (violation); percent-encoded request targets (non-latin-1, CR LF + header line, NUL, encoded slash / element, invalid UTF-8) and a response-header-injection oracle; consumer event sink with the default deferred dispatcher: the real worker loop is run after every request and must survive it; multi-state reports and description modification reports of indexed descriptors in the corpus, substitution of existing handles of another kind, lookup scan (index consistency) in the compared state. '
            'Corpus: all 34 request types captured from the loop-back wire (every service request incl. Subscribe/Renew/GetStatus/Unsubscribe, '
            'Probe, TransferGet, all 9 notification types, SubscriptionEnd). Per type: every element deleted / duplicated / renamed / moved to '
            'another or no namespace / swapped with its sibling / given an unexpected child; every attribute deleted / renamed / set to each of 15 '
            'hostile values; every text set to each hostile value; every other action and 4 literal actions; every other path plus 16 path forms; '
            '9 DOCTYPE / entity / XInclude variants at every text and attribute position; truncation after every tag (quick: every 4th); 62 '
            'framing variants (content-length forms, chunked forms incl. truncation at 12 position classes, content-encodings, two requests, '
            'HTTP/1.0, Expect) and 8 methods (quick: on 6 types); 10 headers x 21 values (quick: 7 types); all raw bodies of <= 3 (thorough 4) '
            'of 12 tokens; all raw connections of <= 3 (4) of 11 tokens; GET on every path x 5 suffixes. Every input is raw bytes on an '
            'in-memory socket for the real handler. Oracle: handler returns (no escaping exception, no spin on exhausted stream, no unbounded '
            'read, watchdog), output is well-formed HTTP, a reached message converter answers a well-formed SOAP envelope (fault if >= 400), '
            'entity / secret-file markers never appear in response or state, a rejected request leaves provider MDIB, consumer MDIB, '
            'subscription tables and consumer subscriptions unchanged, unmutated requests are answered properly.',
            'Single mutations only (no pairs); the socket layer is an in-memory stream where the peer has closed after the last byte, so '
            'blocking on an open idle connection is not modelled; the world is rebuilt after every state-changing accepted exchange (fork per '
            'case is 30-80 ms and serialises in this sandbox). Transaction-id counters are not part of the compared state.', '3/C13'),
    'C14': ('I+H', 'exhaustive enumeration of scope-URI pairs from a grammar against a reference matcher plus laws; explicit-state exploration of discovery datagram histories through the real reader/handlers against a reference model',
            'Extensions: Probes whose type prefix is bound to another namespace / another prefix bound to the same namespace, in every order with normal Probes; the same endpoint published again with other scopes (Probe answers follow the latest publication); application hello callback (raising / well-behaved) as an environment fault, repetition of older datagrams; requested scopes with the scheme in another case; authority grammar (host case, port, userinfo, IPv6 literal, empty port) in all ordered pairs. '
            'All ordered pairs over a URI grammar (3 schemes x 3 authorities x 0-2 (thorough 3) path segments over {x, X, x%2Fy, %78, '
            'empty} x trailing slash x query; quick: every third URI as probe scope) under rfc3986, default and strcmp0 matching are '
            'compared with a 12-line reference matcher written from the property text, plus reflexivity and query-blindness; every '
            'type list and scope list of length <= 2 goes through matches_filter/filter_services. Histories (all pairs, and all triples '
            'over the announcement sub-alphabet; thorough: all triples) of Hello/ProbeMatches/ResolveMatches (2 eprs, 3 metadata '
            'versions, missing XAddrs/Types/Scopes, missing AppSequence), Bye, Probe (types/scopes/matching rule), Resolve, repeated '
            'MessageID and local publish/clear are fed as datagrams through the real NetworkingThread._run_q_read and WSDiscovery '
            'handlers; the remote table, the queued answers and their destination are compared with a reference model after every '
            'event.',
            'ldap/uuid matching rules not covered; sockets replaced by a recording stub; the reference matcher mirrors the documented '
            'rule (raw split on "/", per-segment percent-decoding).', '3/C14'),
    'C15': ('I+S', 'exhaustive enumeration of all outcomes of both random draws (choice-point DFS on the real scheduling code); preemption-bounded schedule exploration of add_outbound_message against the send / loop-back path',
            'Extensions: a second message handed over while the send loop waits for the next copy of the first; communication log (DirectoryLogger) that cannot be written any more after the first transmission; schedule part c15_sched: add_outbound_message against the send / loop-back / read path at statement granularity (the own id must be known before the first copy can come back); the real send loop on a virtual clock with a stop request before, between and after the scheduled transmissions: nothing is sent before its scheduled time or later than the loop raster. '
            'All 501 x 200 outcomes of the two random draws for the unicast and the multicast parameter set are executed '
            'on the real NetworkingThread.add_outbound_message/_repeated_enqueue_msg with clock and RNG owned by the '
            'harness; the envelope (count, initial delay, first-gap window, doubling, cap in seconds) is checked on every '
            'resulting schedule, and every real WSDiscovery sender is looped back through the real _run_q_read body. '
            'The draw space is finite, so this is complete for the property as stated.',
            'Sockets are stubbed (no datagram is sent); time.time() is a fixed virtual instant; the send loop itself '
            '(10 ms raster) is outside the property.', '3/C15'),
    'C16': ('I', 'exhaustive enumeration of the element-value product (present/absent x special characters) and of a scope-string grammar on the real SdcLocation / set_location / mk_scopes code',
            'Extensions: location state updated in place (previous location full / single element / complement); normalisation-sensitive unicode (NFC / NFKC / case folding); SdcLocation objects whose elements are changed between uses; 34 tricky texts (percent sequences, plus, reserved characters) in every element and in pairs, through round trip and the published-scope path. '
            'All |V|^6 locations over a value domain with reserved URL characters, encoded slashes, non-ASCII text and absent elements '
            '(4^6 quick, 8^6 thorough) are converted to a scope string and parsed back; for all locations over a sub-domain the scope '
            'actually published by a real provider (set_location -> LocationContextState.update_from_sdc_location -> mk_scopes) is '
            'tested against the location itself, all 64 enclosing locations and 18 one-element deviations; about 9000 foreign scope '
            'strings (6 schemes x 0-4 path segments x 11 query shapes x 3 leading-slash forms plus malformed urls) are passed through '
            'filter_services_inside with three own locations: it must return, keep the matching services and never raise.',
            'Empty string == absent element; the all-absent location is not published (rejected by contract); values outside the '
            'domain V are not covered.', '3/C16'),
    'C17': ('I', 'exhaustive enumeration of small byte strings x chunk sizes x codings with http.client as independent framing oracle, single-byte corruption at every offset, and the product of Accept-Encoding shapes through the real handler / client code against an RFC 7231 reference',
            'Extensions: coding of notifications after Subscribe requests with every Accept-Encoding shape, sync and async managers (real SoapClient request logic on the arguments the provider passes); data after the end of the compressed stream (second member / frame, padding, junk) against reference decoders (stdlib gzip, frame-by-frame lz4); provider-level configuration histories: set_used_compression before / after start for every ordered pair of settings, own HTTP server and notification clients; sequences of 2 (thorough 3) requests with different Accept-Encoding headers on one keep-alive connection. '
            'All byte strings of length <= 4 (thorough 5) over {00, a, CR, LF} with every chunk size 1..len+2 and large bodies (511..65536 '
            'bytes, thorough up to 5 MiB) with boundary chunk sizes are framed by mk_chunks and decoded by _read_dechunk, '
            'read_request_body, read_response_body and, as independent oracle, Python\'s http.client.HTTPResponse; every registered '
            'coding round-trips on request and response paths; every single-byte substitution and every truncation of a compressed '
            'body must be rejected or yield identical output; unknown codings must raise; all Accept-Encoding headers with 1-2 members '
            'over 6 tokens x 6 q-forms x 3 separators (3 members over a reduced set) x 4 locally enabled sets are sent through the real '
            'DispatchingRequestHandler (in-memory socket) and SoapClient._send_soap_request: the coding used must be enabled locally '
            'and acceptable with q > 0 by an RFC 7231 reference function.',
            'In-memory sockets; http.client is trusted as framing oracle; bodies outside the enumerated set are not covered.', '3/C17'),
    'C18': ('I', 'bounded-exhaustive enumeration of the lexical / Python value spaces against exact-arithmetic oracles',
            'Extensions: all 1681 whole-minute time zone offsets (parsed and built), XsdDateInformation built with int and float seconds 0..59. '
            'Every integer millisecond in dense windows (0..2e6, 1e6 around 1.7e12, 1e5 below 2^53/1000; thorough: 0..1e7 plus '
            'ten more windows) is converted xml->py->xml and py->xml->py (including both float neighbours); decimals: the full '
            'product sign x coefficient set (0..999/9999 and all 10^k, 10^k+-1, 18 nines) x exponent [-18,18]; durations: every '
            'ms to 100 s, every second of a day, every us near 0 and 1 s, boundaries; date-times: a 3000-string grammar product; '
            'booleans, integers, all 146 enum literals; fixed lists of illegal lexical forms must raise. Exhaustive inside the '
            'windows, nothing outside them.',
            'Values outside the enumerated windows are not covered (the property allows sampling there; sampling is outside this '
            'technique). Illegal-form lists are finite. Exactness oracles use Python int/Decimal arithmetic.', '3/C18'),
    'C19': ('I', 'bounded-exhaustive enumeration of TLS configurations x life-cycle scripts x injected connection faults on the real provider and consumer over a loop-back wire, plus real in-memory TLS handshakes for every certloader variant',
            'All 192 combinations of provider TLS {off,on} x consumer {none, optional, enforced} x own/shared HTTP server on each side x '
            'alternative host name on each side x sync/async subscription manager, each with both shutdown orders (thorough: 3 '
            'operations), run the script start-up, GetMetadata of every hosted service, subscribe, mdib load, operation, reports, '
            'renew/status, shutdown; then one TLS connect failure at every connect position and one dropped connection at every '
            'message position of either party. The library HttpServerThreadBase runs its real run() over a socket-less stand-in; '
            'contexts are recording ssl.SSLContext subclasses. On every execution: every URL that names a provider (consumer) host '
            'anywhere on the wire, in the WS-Discovery publication, get_xaddrs, base_urls is https; every soap client constructed '
            'carries the client context (identity); own servers got and used the server context; no message or connect without TLS; '
            'compatible settings must complete the script. certloader: 16 ways to build contexts from a CA file (direct/folder x '
            'cipher string x plain/encrypted key with str/bytes/callable password) x real TLS handshakes over memory BIOs against '
            'peers with a CA-signed, foreign-CA, self-signed and no certificate, in both directions: success exactly for the '
            'CA-signed peer.',
            'The TCP/TLS layer below SoapClient/HTTPSConnectionNoDelay and aiohttp is replaced by the loop-back wire, which refuses '
            'TLS-to-plaintext and plaintext-to-TLS connects like a real peer; that the real socket classes honour the context they '
            'are given is not explored.', '3/C19'),
    'C20': ('I', 'exhaustive enumeration of all handle lists up to a length bound over several MDIB contents, and of the full product of localization filter parameters over several stores, through the real consumer clients and provider services',
            'Extensions: requests that reach the provider under other Host names (localhost, alternative name, foreign host, none) - every advertised address and WSDL location stays https; GetSupportedLanguages / GetLocalizedText between the additions to the text store; certloader histories: an earlier load of the same key / certificate without CA or with another CA in the same process, then the CA load; text store filled by several add() calls in every order (late versions, late single translation, repeated batch); '
            'All handle lists of length <= 2 (thorough 3) over a pool of 9-11 handles (two context-state handles, context descriptors, '
            'metric, MDS of both MDS, VMD, system context, unknown - duplicates and mixed kinds arise by construction) are sent as '
            'GetMdState and GetContextStates through the real consumer service clients over the loop-back transport, for 4 MDIB '
            'contents x {single-MDS, two-MDS MDIB} x contextstates_in_getmdib in {T, F}; the returned multiset must equal a reference '
            'selection computed from the provider tables by the BICEPS rules in the property. GetLocalizedText: 8 text stores x all '
            '2000 combinations of Ref / Version / Lang / TextWidth / NumberOfLines; every returned text must satisfy every constraint, '
            'the unconstrained query must return all texts of the latest version, GetSupportedLanguages the stored language set.',
            'Constrained localization queries are checked for soundness only (as the property states); handle pool and stores as '
            'listed in the evidence.', '3/C20'),
}

NOT_BUILT_REASON = 'check not built yet (work in progress; designed in DESIGN.md section 3)'
ALL = [f'C{i:02d}' for i in range(1, 21)]


def main():
    checks = []
    for pid in ALL:
        if pid not in CHECKS:
            continue
        engine, technique, text, note, ref = CHECKS[pid]
        checks.append({
            'property_id': pid,
            'quick_cmd': f'./check {pid} --tier quick',
            'thorough_cmd': f'./check {pid} --tier thorough',
            'evidence_file': f'/verif/evidence/{pid}.json',
            'replay_cmd_template': f'./check {pid} --replay {{path}}',
            'engine': engine,
            'level_claimed': {'category': 'model_checking', 'text': text, 'design_ref': f'DESIGN.md section {ref}'},
            'level_note': note,
            'technique': technique,
        })
    manifest = {
        'version': 1,
        'setup_cmd': '/venv/bin/python -c "import lxml, sdc11073" && chmod +x /verif/check',
        'hooks': {
            'guard': 'SDC11073_VERIF',
            'enable': 'no source hooks: checks import /repo/src directly and instrument by rebinding module '
                      'attributes (time, random, uuid, Thread, Lock) from /verif/mcx; SDC11073_VERIF is reserved and unused',
            'baseline_off_cmd': BASELINE,
            'source_commits': [],
            'add_only': True,
        },
        'engines': [
            {'name': 'H', 'path': 'mcx/hist.py', 'kind_free_text': 'explicit-state BFS over operation histories of the real '
             'implementation (replay from scratch, canonical snapshot hashing)',
             'serves_properties': [p for p in CHECKS if CHECKS[p][0].startswith('H')]},
            {'name': 'S', 'path': 'mcx/sched.py', 'kind_free_text': 'stateless preemption-bounded schedule exploration of '
             'real threads under a cooperative baton scheduler',
             'serves_properties': [p for p in CHECKS if 'S' in CHECKS[p][0]]},
            {'name': 'I', 'path': 'mcx/choice.py', 'kind_free_text': 'bounded-exhaustive enumeration of inputs / environment '
             'choices / configurations against an independent oracle',
             'serves_properties': [p for p in CHECKS if 'I' in CHECKS[p][0]]},
        ],
        'checks': checks,
        'notes': 'All checks explore the real implementation in /repo/src (imported from the working tree at run time); '
                 'see DESIGN.md. known_findings.json lists recorded and fixed defects.',
        'not_applicable': [{'property_id': p, 'reason': NOT_BUILT_REASON} for p in ALL if p not in CHECKS],
    }
    out = ROOT / 'MANIFEST.json'
    out.write_text(json.dumps(manifest, indent=1) + '\n')
    try:
        import jsonschema
        jsonschema.validate(manifest, json.loads(Path('/root/.vp/MANIFEST.schema.json').read_text()))
        print('MANIFEST.json valid,', len(checks), 'checks')
    except ImportError:
        print('MANIFEST.json written (jsonschema not available for validation),', len(checks), 'checks')


if __name__ == '__main__':
    sys.exit(main())
