#!/usr/bin/env python3
"""File a confirmed seeded change under /verif/seeded/<id>/ : file_seed.py <src_dir> <seed_id> <property> <json-extra>"""
import json, shutil, sys
from pathlib import Path
src, sid, prop, extra = Path(sys.argv[1]), sys.argv[2], sys.argv[3], json.loads(sys.argv[4])
dst = Path('/verif/seeded') / sid
dst.mkdir(parents=True, exist_ok=True)
shutil.copy(src / 'patch.diff', dst / 'patch.diff')
shutil.copy(src / 'demo_test.py', dst / 'demo_test.py')
for extra_py in src.glob('*.py'):
    if extra_py.name != 'demo_test.py':
        shutil.copy(extra_py, dst / extra_py.name)     # helper modules the demo imports
if (src / 'notes.md').exists():
    shutil.copy(src / 'notes.md', dst / 'notes.md')
confirm = json.loads((src / 'confirm.json').read_text()) if (src / 'confirm.json').exists() else {}
meta = {'seed_id': sid, 'property': prop, 'confirmed': confirm}
meta.update(extra)
(dst / 'meta.json').write_text(json.dumps(meta, indent=1) + '\n')
print('filed', dst)
