#!/bin/bash
# usage: tools/confirm_seed.sh <dir with patch.diff demo_test.py> <name>
# Confirms in a scratch worktree: demo passes clean, fails with patch, full pinned suite passes with patch.
src=$1; name=$2; wt=/tmp/cs_$name
flock /tmp/.verif_wt.lock git -C /repo worktree remove --force $wt 2>/dev/null; rm -rf $wt
flock /tmp/.verif_wt.lock git -C /repo worktree add -q --detach $wt HEAD || exit 2
cp $src/demo_test.py $wt/demo_test_seed.py
for f in $src/*.py; do [ "$(basename $f)" != demo_test.py ] && cp $f $wt/; done   # helper modules of the demo
run_demo() { (cd $wt && PYTHONPATH=$wt/src timeout 600 /venv/bin/python -m pytest -x -q -p no:cacheprovider demo_test_seed.py > $wt/demo.log 2>&1; echo $?); }
clean=$(run_demo)
(cd $wt && git apply $src/patch.diff) || { echo "{\"name\":\"$name\",\"error\":\"patch does not apply\"}" > $src/confirm.json; git -C /repo worktree remove --force $wt; exit 3; }
patched=$(run_demo)
rm -f $wt/demo_test_seed.py $wt/demo.log; for f in $src/*.py; do rm -f $wt/$(basename $f); done
/verif/tools/baseline_ns.sh $wt /tmp/cs_$name.bl > /tmp/cs_$name.summary 2>&1
summary=$(grep BASELINE /tmp/cs_$name.summary)
head=$(git -C /repo rev-parse --short HEAD)
echo "{\"name\":\"$name\",\"repo_head\":\"$head\",\"demo_exit_clean\":$clean,\"demo_exit_patched\":$patched,\"suite\":\"$summary\"}" > $src/confirm.json
flock /tmp/.verif_wt.lock git -C /repo worktree remove --force $wt; rm -rf $wt /tmp/cs_$name.bl.xml /tmp/cs_$name.bl.log
cat $src/confirm.json
