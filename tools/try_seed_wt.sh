#!/bin/bash
# usage: tools/try_seed_wt.sh <patch.diff> <check-id> [tier]
# Runs a check against a scratch worktree of /repo HEAD with the patch applied (never touches /repo, /verif/evidence or
# /verif/replays), so that several trials can run side by side. Output: /tmp/ts/<name>.<id>.log
patch=$(readlink -f $1); id=$2; tier=${3:-quick}
name=$(echo $patch | sed 's|/patch.diff$||; s|.*/seed/out/||; s|.*/seeded/||; s|/|_|g')
wt=/tmp/ts/wt_${name}_$id; out=/tmp/ts/out_${name}_$id
mkdir -p /tmp/ts; flock /tmp/.verif_wt.lock git -C /repo worktree remove --force $wt 2>/dev/null; rm -rf $wt $out
flock /tmp/.verif_wt.lock git -C /repo worktree add -q --detach $wt HEAD || exit 2
if ! git -C $wt apply $patch 2>/dev/null; then
  if ! git -C $wt apply --3way $patch >/dev/null 2>&1; then echo "$name $id: PATCH DOES NOT APPLY"; git -C /repo worktree remove --force $wt; exit 3; fi
fi
mkdir -p $out/evidence $out/replays
cd /verif && VERIF_REPO=$wt VERIF_OUT=$out timeout 3000 ./check $id --tier $tier > /tmp/ts/$name.$id.log 2>&1; rc=$?
flock /tmp/.verif_wt.lock git -C /repo worktree remove --force $wt; rm -rf $wt
echo "$name: check $id tier=$tier exit=$rc violations=$(grep -c '^VIOLATION' /tmp/ts/$name.$id.log)"
grep -E "^VIOLATION|HARNESS|Traceback" /tmp/ts/$name.$id.log | sed 's/replay=[^ ]* //' | cut -c1-220 | head -6
