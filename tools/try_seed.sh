#!/bin/bash
# usage: tools/try_seed.sh <patch.diff> <check-id> [tier]   -- apply patch to /repo, run the check, undo the patch
patch=$1; id=$2; tier=${3:-quick}
cd /repo || exit 2
trap 'cd /repo && git reset -q --hard HEAD' EXIT INT TERM   # never leave the patch behind
if ! git diff --quiet; then echo "repo working tree not clean"; exit 2; fi
if ! git apply --check "$patch" 2>/dev/null; then
  if ! git apply --3way "$patch" >/dev/null 2>&1 || git diff --name-only --diff-filter=U | grep -q .; then
    git reset -q --hard HEAD; echo "PATCH DOES NOT APPLY (needs manual rebase)"; exit 3
  fi
  git reset -q   # keep the merged change unstaged
else
  git apply "$patch" || exit 3
fi
cd /verif && timeout 3000 ./check $id --tier $tier > /tmp/try_seed_$id.log 2>&1; rc=$?
cd /repo && git reset -q --hard HEAD
echo "check $id tier=$tier exit=$rc"; grep -E "^VIOLATION|^C[0-9]+ tier|HARNESS" /tmp/try_seed_$id.log | cut -c1-260 | head -8
# restore the evidence file of the unchanged tree
cd /verif && git checkout -q -- evidence/$id.json 2>/dev/null
exit 0
