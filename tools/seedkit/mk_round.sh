#!/bin/bash
# usage: tools/seedkit/mk_round.sh <round-no> <changes-per-agent> <prop-id>...
# creates /tmp/seed/<id>r<round> (scratch worktree of /repo HEAD), /tmp/seed/out/<id>r<round>/ and the prompt file
# /tmp/seed/prompts/<id>r<round>.txt (template + property text only); prints the prompt paths.
round=$1; n=$2; shift 2
here="$(cd "$(dirname "${BASH_SOURCE[0]}")" && pwd)"
mkdir -p /tmp/seed/out /tmp/seed/prompts
for id in "$@"; do
  tag=${id}r${round}
  wt=/tmp/seed/$tag
  git -C /repo worktree remove --force $wt 2>/dev/null; rm -rf $wt
  git -C /repo worktree add -q --detach $wt HEAD || exit 2
  mkdir -p /tmp/seed/out/$tag
  /usr/bin/python3 - "$here" "$id" "$wt" "/tmp/seed/out/$tag" "$n" > /tmp/seed/prompts/$tag.txt <<'EOF'
import os, sys
here, pid, wt, out, n = sys.argv[1:]
t = open(f"{here}/" + os.environ.get("SEED_TMPL", "PROMPT.tmpl")).read()
p = open(f'{here}/{pid}.prop.txt').read()
print(t.replace('__WT__', wt).replace('__OUT__', out).replace('__N__', n).replace('__PROP__', p))
EOF
  echo /tmp/seed/prompts/$tag.txt
done
