#!/bin/bash
# usage: tools/baseline_ns.sh <repo-dir> <out-prefix>  -- pinned suite inside a private network namespace (parallel-safe)
dir=${1:-/repo}; out=${2:-/tmp/baseline_$$}
unshare -n bash -c "ip link set lo up; ip route add 224.0.0.0/4 dev lo 2>/dev/null; exec /verif/tools/baseline.sh '$dir' '$out'"
