#!/bin/bash
# usage: tools/seed_confirms.sh <tag>   -- confirmation only (demo clean / patched, full pinned suite) of every delivered change
tag=$1
for d in /tmp/seed/out/$tag/*/; do
  [ -f $d/patch.diff ] || continue
  k=$(basename $d)
  /verif/tools/confirm_seed.sh ${d%/} ${tag}_$k
done > /tmp/ts/confirm_$tag.txt 2>&1
