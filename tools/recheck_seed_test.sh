#!/bin/bash
# usage: tools/recheck_seed_test.sh <seed dir with patch.diff> <name> <pytest node id>   -- re-runs one test 3x with the patch applied (netns)
src=$1; name=$2; node=$3; wt=/tmp/rc_$name
flock /tmp/.verif_wt.lock git -C /repo worktree remove --force $wt 2>/dev/null; rm -rf $wt
flock /tmp/.verif_wt.lock git -C /repo worktree add -q --detach $wt HEAD || exit 2
(cd $wt && git apply $src/patch.diff) || { echo "patch does not apply"; git -C /repo worktree remove --force $wt; exit 3; }
ok=0
for i in 1 2 3; do
  unshare -n bash -c "ip link set lo up; ip route add 224.0.0.0/4 dev lo 2>/dev/null; cd $wt && PYTHONPATH=$wt/src timeout 900 /venv/bin/python -m pytest -q -p no:cacheprovider '$node' > /tmp/rc_$name.$i.log 2>&1" && ok=$((ok+1))
done
flock /tmp/.verif_wt.lock git -C /repo worktree remove --force $wt
echo "{\"name\":\"$name\",\"test\":\"$node\",\"passed_runs\":$ok,\"of\":3}"
