#!/bin/bash
# usage: tools/seed_lane.sh <tag e.g. C08r3> <check-id>   -- for every delivered change of the tag: trial against the check
# (scratch worktree) and confirmation (demo clean/patched, full pinned suite with the patch); results in /tmp/ts/lane_<tag>.txt
tag=$1; id=$2
for d in /tmp/seed/out/$tag/*/; do
  k=$(basename $d)
  [ -f $d/patch.diff ] || continue
  /verif/tools/try_seed_wt.sh $d/patch.diff $id quick
  /verif/tools/confirm_seed.sh ${d%/} ${tag}_$k
done > /tmp/ts/lane_$tag.txt 2>&1
