#!/opt/veriftools/pyvenv/bin/python
"""Validate MANIFEST.json and every evidence file against the schemas in /root/.vp; exit 1 on the first invalid one."""
import glob, json, sys
import jsonschema
bad = 0
for schema, files in (('/root/.vp/MANIFEST.schema.json', ['/verif/MANIFEST.json']),
                      ('/root/.vp/EVIDENCE.schema.json', sorted(glob.glob('/verif/evidence/*.json')))):
    sch = json.load(open(schema))
    for f in files:
        try:
            jsonschema.validate(json.load(open(f)), sch)
        except Exception as ex:  # noqa: BLE001
            bad += 1
            print('INVALID', f, str(ex).splitlines()[0][:200])
print(f'{"all valid" if not bad else str(bad) + " invalid"}')
sys.exit(1 if bad else 0)
