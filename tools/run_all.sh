#!/bin/bash
# usage: tools/run_all.sh [tier] [ids...]  -- runs the registered checks one after the other, prints one line per check
tier=${1:-quick}; shift
ids=${@:-$(python3 -c "import json;print(' '.join(c['property_id'] for c in json.load(open('/verif/MANIFEST.json'))['checks']))")}
cd /verif
for id in $ids; do
  s=$(date +%s)
  ./check $id --tier $tier > /tmp/run_all_$id.log 2>&1; rc=$?
  echo "$id exit=$rc $(($(date +%s)-s))s $(grep -c '^VIOLATION' /tmp/run_all_$id.log) violations, $(grep -c '^KNOWN-FINDING' /tmp/run_all_$id.log) known | $(grep "^$id tier" /tmp/run_all_$id.log | cut -c1-160)"
done
