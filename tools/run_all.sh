#!/bin/bash
# usage: tools/run_all.sh [tier] [ids...]  -- runs the registered checks one after the other, prints one line per check
tier=${1:-quick}; shift
here0="$(cd "$(dirname "${BASH_SOURCE[0]}")/.." && pwd)"; cd "$here0"
ids=${@:-$(python3 -c "import json;print(' '.join(c['property_id'] for c in json.load(open('MANIFEST.json'))['checks']))")}
here="$(cd "$(dirname "${BASH_SOURCE[0]}")/.." && pwd)"; cd "$here"
logdir=${RUN_ALL_LOGDIR:-/tmp}
for id in $ids; do
  s=$(date +%s)
  ./check $id --tier $tier > $logdir/run_all_${tier}_$id.log 2>&1; rc=$?
  echo "$id exit=$rc $(($(date +%s)-s))s $(grep -c '^VIOLATION' $logdir/run_all_${tier}_$id.log) violations, $(grep -c '^KNOWN-FINDING' $logdir/run_all_${tier}_$id.log) known | $(grep "^$id tier" $logdir/run_all_${tier}_$id.log | cut -c1-160)"
done
