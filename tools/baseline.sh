#!/bin/bash
# usage: tools/baseline.sh <repo-dir> <out-prefix>   -- runs the pinned suite, prints summary vs BASELINE.json
dir=${1:-/repo}; out=${2:-/tmp/baseline_$$}
cd "$dir" && PYTHONPATH="$dir/src" /venv/bin/python -m pytest -ra -q -p no:cacheprovider --timeout=900 --continue-on-collection-errors --junitxml=$out.xml > $out.log 2>&1
/venv/bin/python - "$out.xml" <<'PY'
import json, sys, xml.etree.ElementTree as ET
base = set(json.load(open('/root/.vp/BASELINE.json'))['stable_pass'])
t = ET.parse(sys.argv[1])
passed = set(); failed = set()
for tc in t.iter('testcase'):
    name = f"{tc.get('classname')}::{tc.get('name')}"
    if any(c.tag in ('failure', 'error') for c in tc): failed.add(name)
    elif any(c.tag == 'skipped' for c in tc): pass
    else: passed.add(name)
missing = sorted(base - passed)
print(f'BASELINE: passed={len(passed)} failed={len(failed)} baseline_missing={len(missing)}')
for m in missing[:30]: print('  MISSING', m)
PY
