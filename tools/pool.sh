#!/bin/bash
# usage: pool.sh <maxjobs> <cmdfile>  -- run each line of cmdfile as a job, at most maxjobs at a time
max=$1; file=$2
while read -r line; do
  while [ $(jobs -rp | wc -l) -ge $max ]; do sleep 5; done
  bash -c "$line" &
done < $file
wait
