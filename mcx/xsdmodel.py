"""A small structural model of the bundled XSD files: which children / attributes a complex type has, which of them are
required, and what the built-in base and facets of a simple type are. Used to keep generated instances inside the
schema's value space (C05); validity itself is always judged by libxml2's schema validator, never by this model."""
from __future__ import annotations

import functools

from lxml import etree

from mcx import schema

XS = 'http://www.w3.org/2001/XMLSchema'
X = '{%s}' % XS


class Child:
    __slots__ = ('qname', 'min', 'max', 'type', 'inline', 'in_choice')

    def __init__(self, qname, mn, mx, type_, inline, in_choice):
        self.qname, self.min, self.max, self.type, self.inline, self.in_choice = qname, mn, mx, type_, inline, in_choice

    @property
    def required(self):
        return self.min >= 1 and not self.in_choice


class Attr:
    __slots__ = ('name', 'required', 'type', 'inline_simple')

    def __init__(self, name, required, type_, inline_simple):
        self.name, self.required, self.type, self.inline_simple = name, required, type_, inline_simple


class TypeModel:
    def __init__(self):
        self.children = []      # Child, in schema order
        self.attrs = {}         # name (clark for qualified) -> Attr
        self.simple_content = None   # QName of the simple base, for simpleContent types
        self.abstract = False
        self.any = False

    def child(self, qname):
        for c in self.children:
            if c.qname == qname:
                return c
        return None


class Index:
    def __init__(self):
        self.ctypes, self.stypes, self.elements, self.agroups, self.groups, self.gattrs = {}, {}, {}, {}, {}, {}
        for f in sorted(schema.XSD_DIR.glob('*.xsd')):
            root = etree.parse(str(f)).getroot()
            tns = root.get('targetNamespace')
            qualified = root.get('elementFormDefault') == 'qualified'
            for el in root:
                if not isinstance(el.tag, str):
                    continue
                ln = etree.QName(el).localname
                name = el.get('name')
                if name is None:
                    continue
                key = (tns, name)
                ctx = (tns, qualified, el)
                {'complexType': self.ctypes, 'simpleType': self.stypes, 'element': self.elements,
                 'attributeGroup': self.agroups, 'group': self.groups, 'attribute': self.gattrs}.get(ln, {})[key] = ctx

    @staticmethod
    def resolve(node, text):
        if text is None:
            return None
        if ':' in text:
            pfx, ln = text.split(':', 1)
            if pfx == 'xml':
                return ('http://www.w3.org/XML/1998/namespace', ln)
            return (node.nsmap.get(pfx), ln)
        return (node.nsmap.get(None), text)


@functools.lru_cache(maxsize=1)
def index():
    return Index()


def _occurs(el, factor_min=1):
    mn = int(el.get('minOccurs', '1')) * factor_min
    mx = el.get('maxOccurs', '1')
    return mn, (10 ** 9 if mx == 'unbounded' else int(mx))


def _collect_particles(idx, tns, qualified, node, model, in_choice=False, outer_min=1):
    for p in node:
        if not isinstance(p.tag, str):
            continue
        ln = etree.QName(p).localname
        if ln in ('sequence', 'all'):
            mn, _ = _occurs(p)
            _collect_particles(idx, tns, qualified, p, model, in_choice, outer_min * min(mn, 1))
        elif ln == 'choice':
            _collect_particles(idx, tns, qualified, p, model, True, outer_min)
        elif ln == 'element':
            mn, mx = _occurs(p)
            mn *= outer_min
            if p.get('ref') is not None:
                q = idx.resolve(p, p.get('ref'))
                g = idx.elements.get(q)
                type_ = idx.resolve(g[2], g[2].get('type')) if g is not None else None
                inline = None
                if g is not None and type_ is None:
                    inline = _inline_model(idx, g[0], g[1], g[2])
                model.children.append(Child(etree.QName(q[0], q[1]), mn, mx, type_, inline, in_choice))
            else:
                form_q = p.get('form', 'qualified' if qualified else 'unqualified') == 'qualified'
                qn = etree.QName(tns, p.get('name')) if form_q else etree.QName(p.get('name'))
                type_ = idx.resolve(p, p.get('type'))
                inline = _inline_model(idx, tns, qualified, p) if type_ is None else None
                model.children.append(Child(qn, mn, mx, type_, inline, in_choice))
        elif ln == 'any':
            model.any = True
        elif ln == 'group' and p.get('ref') is not None:
            g = idx.groups.get(idx.resolve(p, p.get('ref')))
            if g is not None:
                _collect_particles(idx, g[0], g[1], g[2], model, in_choice, outer_min)


def _collect_attrs(idx, tns, node, model):
    for a in node:
        if not isinstance(a.tag, str):
            continue
        ln = etree.QName(a).localname
        if ln == 'attribute':
            if a.get('ref') is not None:
                q = idx.resolve(a, a.get('ref'))
                g = idx.gattrs.get(q)
                name = etree.QName(q[0], q[1]).text
                type_ = idx.resolve(g[2], g[2].get('type')) if g is not None else None
                inline = g[2].find(X + 'simpleType') if g is not None else None
            else:
                name = a.get('name')
                type_ = idx.resolve(a, a.get('type'))
                inline = a.find(X + 'simpleType')
            model.attrs[name] = Attr(name, a.get('use') == 'required', type_, inline)
        elif ln == 'attributeGroup' and a.get('ref') is not None:
            g = idx.agroups.get(idx.resolve(a, a.get('ref')))
            if g is not None:
                _collect_attrs(idx, g[0], g[2], model)


def _fill_from_complex(idx, tns, qualified, ct, model):
    model.abstract = model.abstract or ct.get('abstract') == 'true'
    cc = ct.find(X + 'complexContent')
    sc = ct.find(X + 'simpleContent')
    body = ct
    if cc is not None or sc is not None:
        holder = cc if cc is not None else sc
        ext = holder.find(X + 'extension')
        if ext is None:
            ext = holder.find(X + 'restriction')
        base = idx.resolve(ext, ext.get('base')) if ext is not None else None
        if base is not None:
            b = idx.ctypes.get(base)
            if b is not None:
                sub = TypeModel()
                _fill_from_complex(idx, b[0], b[1], b[2], sub)
                model.children.extend(sub.children)
                model.attrs.update(sub.attrs)
                model.any = model.any or sub.any
                model.simple_content = model.simple_content or sub.simple_content
            elif sc is not None:
                model.simple_content = base
        body = ext if ext is not None else ct
    _collect_particles(idx, tns, qualified, body, model)
    _collect_attrs(idx, tns, body, model)


def _inline_model(idx, tns, qualified, element_node):
    ct = element_node.find(X + 'complexType')
    if ct is None:
        return None
    m = TypeModel()
    _fill_from_complex(idx, tns, qualified, ct, m)
    return m


@functools.lru_cache(maxsize=None)
def model_for_type(ns, name):
    idx = index()
    c = idx.ctypes.get((ns, name))
    if c is None:
        return None
    m = TypeModel()
    _fill_from_complex(idx, c[0], c[1], c[2], m)
    m.abstract = c[2].get('abstract') == 'true'
    return m


@functools.lru_cache(maxsize=None)
def model_for_element(ns, name):
    idx = index()
    e = idx.elements.get((ns, name))
    if e is None:
        return None
    t = idx.resolve(e[2], e[2].get('type'))
    if t is not None:
        return model_for_type(*t)
    return _inline_model(idx, e[0], e[1], e[2])


def child_model(child):
    if child is None:
        return None
    if child.inline is not None:
        return child.inline
    if child.type is not None:
        return model_for_type(*child.type)
    return None


UNSIGNED = {'unsignedLong', 'unsignedInt', 'unsignedShort', 'unsignedByte', 'nonNegativeInteger', 'positiveInteger'}
SIGNED = {'long', 'int', 'short', 'byte', 'integer', 'negativeInteger', 'nonPositiveInteger'}


def simple_info(type_q, inline=None, _depth=0):
    """{'builtin': name, 'enum': [...], 'minLength': n, 'pattern': s, 'min': v, 'max': v, 'list': bool} for a simple type."""
    info = {'builtin': None, 'enum': [], 'minLength': 0, 'pattern': None, 'min': None, 'max': None, 'list': False, 'union': False}
    idx = index()
    node = inline
    if node is None:
        if type_q is None:
            return info
        if type_q[0] == XS:
            info['builtin'] = type_q[1]
            return info
        s = idx.stypes.get(tuple(type_q))
        if s is None:
            c = idx.ctypes.get(tuple(type_q))
            if c is not None:
                m = model_for_type(*type_q)
                if m is not None and m.simple_content is not None:
                    return simple_info(m.simple_content, None, _depth + 1)
            return info
        node = s[2]
    if _depth > 8:
        return info
    r = node.find(X + 'restriction')
    if r is not None:
        base = idx.resolve(r, r.get('base'))
        inner = r.find(X + 'simpleType')
        info = simple_info(base, inner, _depth + 1) if (base is not None or inner is not None) else info
        for f in r:
            if not isinstance(f.tag, str):
                continue
            ln = etree.QName(f).localname
            if ln == 'enumeration':
                info['enum'] = info['enum'] + [f.get('value')]
            elif ln == 'minLength':
                info['minLength'] = int(f.get('value'))
            elif ln == 'pattern':
                info['pattern'] = f.get('value')
            elif ln == 'minInclusive':
                info['min'] = f.get('value')
            elif ln == 'maxInclusive':
                info['max'] = f.get('value')
        return info
    lst = node.find(X + 'list')
    if lst is not None:
        item = idx.resolve(lst, lst.get('itemType'))
        info = simple_info(item, lst.find(X + 'simpleType'), _depth + 1)
        info['list'] = True
        return info
    if node.find(X + 'union') is not None:
        info['union'] = True
    return info


def is_unsigned(info):
    if info['builtin'] in UNSIGNED:
        return True
    return info['min'] is not None and not str(info['min']).startswith('-')


def base_of(type_q):
    """The base type (ns, name) of a named complex type, or None."""
    idx = index()
    c = idx.ctypes.get(tuple(type_q))
    if c is None:
        return None
    ct = c[2]
    for holder in (ct.find(X + 'complexContent'), ct.find(X + 'simpleContent')):
        if holder is None:
            continue
        ext = holder.find(X + 'extension')
        if ext is None:
            ext = holder.find(X + 'restriction')
        if ext is not None and ext.get('base'):
            return idx.resolve(ext, ext.get('base'))
    return None


def derives_from(type_q, base_q):
    seen = 0
    cur = tuple(type_q)
    base_q = tuple(base_q)
    while cur is not None and seen < 20:
        if cur == base_q:
            return True
        cur = base_of(cur)
        cur = tuple(cur) if cur is not None else None
        seen += 1
    return False
