"""Harness-built XML Schema validator over the bundled XSD files (independent of the library's validate flag)."""
from __future__ import annotations

import functools
from pathlib import Path

from lxml import etree

from mcx.runner import REPO

XSD_DIR = REPO / 'src' / 'sdc11073' / 'xsd'


class _Resolver(etree.Resolver):
    def resolve(self, system_url, public_id, context):  # noqa: ARG002
        name = system_url.rstrip('/').split('/')[-1]
        cand = XSD_DIR / name
        if cand.exists():
            return self.resolve_filename(str(cand), context)
        alias = {'ws-addr.xsd': 'ws-addr.xsd', 'addressing': 'ws-addr.xsd', 'xml.xsd': 'xml.xsd'}
        for key, fname in alias.items():
            if key in system_url and (XSD_DIR / fname).exists():
                return self.resolve_filename(str(XSD_DIR / fname), context)
        return None


def _target_ns(path):
    root = etree.parse(str(path)).getroot()
    return root.get('targetNamespace')


@functools.lru_cache(maxsize=1)
def validator():
    parser = etree.XMLParser(resolve_entities=True)
    parser.resolvers.add(_Resolver())
    parts = ['<?xml version="1.0" encoding="UTF-8"?>',
             '<xsd:schema xmlns:xsd="http://www.w3.org/2001/XMLSchema" elementFormDefault="qualified">']
    seen = set()
    for f in sorted(XSD_DIR.glob('*.xsd')):
        ns = _target_ns(f)
        if ns is None or ns in seen or ns == 'http://www.w3.org/XML/1998/namespace':
            continue
        seen.add(ns)
        parts.append(f'<xsd:import namespace="{ns}" schemaLocation="{f.name}"/>')
    parts.append('</xsd:schema>')
    tree = etree.fromstring('\n'.join(parts).encode(), parser=parser, base_url=str(XSD_DIR) + '/')
    return etree.XMLSchema(etree=tree)


def validate_bytes(data: bytes):
    """Return None if data is a schema-valid document, else the error text."""
    try:
        doc = etree.fromstring(data, parser=etree.XMLParser(resolve_entities=False, no_network=True))
    except etree.XMLSyntaxError as ex:
        return f'not well-formed: {ex}'
    v = validator()
    if v.validate(doc):
        return None
    return '; '.join(str(e.message) for e in list(v.error_log)[:3])
