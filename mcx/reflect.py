"""Reflection over the declarative data-type classes (everything with _props): discovery, construction, paths."""
from __future__ import annotations

import enum
import inspect
from decimal import Decimal

from lxml import etree

MODULES = ('sdc11073.xml_types.pm_types', 'sdc11073.xml_types.msg_types', 'sdc11073.xml_types.eventing_types',
           'sdc11073.xml_types.wsd_types', 'sdc11073.xml_types.addressing_types', 'sdc11073.xml_types.dpws_types',
           'sdc11073.xml_types.mex_types', 'sdc11073.pysoap.soapenvelope', 'sdc11073.mdib.statecontainers',
           'sdc11073.mdib.descriptorcontainers')


def all_classes():
    """[(qualified name, class)] of every class that declares or inherits _props, sorted by name."""
    import importlib
    out = {}
    for mname in MODULES:
        mod = importlib.import_module(mname)
        for name, cls in vars(mod).items():
            if not inspect.isclass(cls) or cls.__module__ != mname:
                continue
            if not hasattr(cls, 'sorted_container_properties'):
                continue
            if name.startswith('_'):
                continue
            out[f'{mname.split(".")[-1]}.{name}'] = cls
    return sorted(out.items())


def is_state(cls):
    return getattr(cls, 'is_state_container', False)


def is_descriptor(cls):
    return getattr(cls, 'is_descriptor_container', False)


def descriptor_for_state(state_cls):
    """A descriptor container instance suitable as descriptor_container of a state of class state_cls (or None)."""
    from sdc11073.mdib import descriptorcontainers as dc
    from sdc11073.xml_types import pm_qnames
    want = getattr(state_cls, 'NODETYPE', None)
    for name, cls in vars(dc).items():
        if inspect.isclass(cls) and getattr(cls, 'STATE_QNAME', None) is not None and cls.STATE_QNAME == want \
                and getattr(cls, 'NODETYPE', None) is not None:
            try:
                return cls(handle='dh', parent_handle='ph')
            except Exception:  # noqa: BLE001
                continue
    return None


def new(cls):
    """Fresh default instance, or None if the class cannot be constructed without arguments we cannot guess."""
    try:
        if is_descriptor(cls):
            return cls(handle='h1', parent_handle='p1')
        if is_state(cls):
            d = descriptor_for_state(cls)
            if d is None:
                return None
            return cls(d)
        return cls()
    except TypeError:
        return _new_with_args(cls)
    except Exception:  # noqa: BLE001
        return None


def _new_with_args(cls):
    """Classes whose constructor has required parameters: the smallest sensible arguments."""
    from sdc11073.xml_types import pm_types as pm
    name = cls.__name__
    try:
        if name in ('CodedValue', 'Translation', 'TranslationType'):
            return cls('12345')
        if name == 'LocalizedText':
            return cls('text')
        if name == 'Measurement':
            return cls(Decimal('1.5'), pm.CodedValue('262656'))
        if name in ('ReferenceRange', 'ReferenceRangeType'):
            return cls(pm.Range(lower=Decimal('1'), upper=Decimal('2')))
        if name == 'RelatedMeasurement':
            return cls(pm.Measurement(Decimal('1.5'), pm.CodedValue('262656')))
        if name == 'RetrievabilityInfo':
            return cls(pm.RetrievabilityMethod.GET)
    except Exception:  # noqa: BLE001
        return None
    return None


TAG = etree.QName('urn:verif', 'X')


def to_node(obj, lenient=False):
    """Write obj to a node. lenient=True switches the library's own MANDATORY_VALUE_CHECKING flag off for the call."""
    from sdc11073.namespaces import default_ns_helper as nsh
    from sdc11073.xml_types import xml_structure
    old = xml_structure.MANDATORY_VALUE_CHECKING
    if lenient:
        xml_structure.MANDATORY_VALUE_CHECKING = False
    try:
        if hasattr(obj, 'mk_node'):
            return obj.mk_node(TAG, nsh)
        return obj.as_etree_node(TAG, nsh.ns_map)
    finally:
        xml_structure.MANDATORY_VALUE_CHECKING = old


def from_node(cls, node, like=None):
    if is_descriptor(cls):
        return cls.from_node(node, 'p1')
    if is_state(cls):
        st = cls(like.descriptor_container if like is not None else descriptor_for_state(cls))
        st.update_from_node(node)
        return st
    if cls.__name__ == 'Metadata' and cls.__module__.endswith('mex_types'):
        # mex Metadata.from_node takes the node that contains wsx:Metadata (the soap body)
        body = etree.Element('body')
        body.append(node)
        return cls.from_node(body)
    return cls.from_node(node)


def empty_node():
    from sdc11073.namespaces import default_ns_helper as nsh
    return etree.Element(TAG, nsmap=nsh.ns_map)


def is_struct(v):
    return hasattr(v, 'sorted_container_properties')


def nested_mutables(obj, depth=3, prefix=()):
    """Yield (path, object) for every nested mutable object (struct or list) reachable through declared properties."""
    if depth <= 0:
        return
    for name, prop in obj.sorted_container_properties():
        try:
            v = prop.get_actual_value(obj) if hasattr(prop, 'get_actual_value') else getattr(obj, name)
        except Exception:  # noqa: BLE001
            continue
        p = prefix + (name,)
        if is_struct(v):
            yield p, v
            yield from nested_mutables(v, depth - 1, p)
        elif isinstance(v, list):
            yield p, v
            for i, m in enumerate(v[:3]):
                if is_struct(m):
                    yield p + (i,), m
                    yield from nested_mutables(m, depth - 1, p + (i,))
                elif isinstance(m, etree._Element):
                    yield p + (i,), m          # xml elements (extensions, reference parameters) are mutable members too


def class_defaults(cls):
    """ids of all class-level default objects (and their nested mutables) of cls."""
    ids = {}
    try:
        inst_props = []
        for c in reversed(inspect.getmro(cls)):
            for name in c.__dict__.get('_props', ()):
                prop = getattr(c, name, None)
                if prop is not None:
                    inst_props.append((name, prop))
    except Exception:  # noqa: BLE001
        return ids
    for name, prop in inst_props:
        d = getattr(prop, '_default_py_value', None)
        if is_struct(d) or isinstance(d, list):
            ids[id(d)] = (name,)
            if is_struct(d):
                for p, o in nested_mutables(d):
                    ids[id(o)] = (name,) + p
    return ids


def sentinel(cur):
    if isinstance(cur, bool):
        return not cur
    if isinstance(cur, enum.Enum):
        members = list(type(cur))
        return members[(members.index(cur) + 1) % len(members)] if len(members) > 1 else None
    if isinstance(cur, int):
        return cur + 987
    if isinstance(cur, Decimal):
        return cur + Decimal(987)
    if isinstance(cur, float):
        return cur + 987.0
    if isinstance(cur, str):
        return cur + 'SENTINEL'
    return None


def scalar_paths(obj, depth=3, prefix=()):
    """(path) of every settable scalar at nesting depth >= 2 plus every list (in-place editable)."""
    out = []
    for name, prop in obj.sorted_container_properties():
        try:
            v = getattr(obj, name)
        except Exception:  # noqa: BLE001
            continue
        p = prefix + (name,)
        if is_struct(v):
            if depth > 1:
                for sub in scalar_paths(v, depth - 1, p):
                    out.append(sub)
                # also: a scalar directly on the nested struct (absent ones get a value)
                for n2, p2 in v.sorted_container_properties():
                    out.append(p + (n2,))
        elif isinstance(v, list):
            out.append(p)
            for i, m in enumerate(v[:2]):
                if is_struct(m) and depth > 1:
                    for n2, _ in m.sorted_container_properties():
                        out.append(p + (i, n2))
    seen, uniq = set(), []
    for p in out:
        if p not in seen:
            seen.add(p)
            uniq.append(p)
    return uniq


def resolve(obj, path):
    for el in path:
        obj = obj[el] if isinstance(el, int) else getattr(obj, el)
    return obj


def write_at(obj, path):
    """Modify obj at path in place (nested write); returns True if something was written."""
    parent = resolve(obj, path[:-1])
    name = path[-1]
    if isinstance(name, int):
        return False
    try:
        cur = getattr(parent, name)
    except Exception:  # noqa: BLE001
        return False
    if isinstance(cur, list):
        if type(cur).__name__ == 'ExtensionLocalValue':
            cur.append(etree.Element('{urn:verif}sentinel'))
        elif cur and not is_struct(cur[0]):
            cur.append(cur[0])
        elif cur:
            cur.pop()
        else:
            cur.append('SENTINEL')
        return True
    if is_struct(cur):
        return False
    if cur is None:
        prop = getattr(type(parent), name, None)
        conv = getattr(prop, '_converter', None)
        for cand in ('SENTINEL', 987, Decimal(987), True, 987.0):
            try:
                if conv is not None:
                    conv.check_valid(cand)
                setattr(parent, name, cand)
                return True
            except Exception:  # noqa: BLE001
                continue
        return False
    new_v = sentinel(cur)
    if new_v is None:
        return False
    try:
        setattr(parent, name, new_v)
    except Exception:  # noqa: BLE001
        return False
    return True


# --------------------------------------------------------------------------------------------
# value domains per property type (used to populate instances: C12, C05)
def domain(prop, depth=2):
    """Candidate values for a declared property, typical value first; [] if the harness has no value for this type."""
    import enum as _enum
    from sdc11073.xml_types import dataconverters as dc
    from sdc11073.xml_types import isoduration
    from sdc11073.xml_types import xml_structure as xs
    conv = getattr(prop, '_converter', None)
    cname = type(prop).__name__
    if isinstance(conv, dc.EnumConverter):
        members = list(conv._klass)
        return members[:6]
    if cname in ('NodeEnumQNameProperty',):
        enum_cls = getattr(prop, 'enum_cls', None)
        return list(enum_cls)[:4] if enum_cls is not None else []
    if isinstance(prop, xs._AttributeListBase):
        if cname == 'DecimalListAttributeProperty':
            return [[Decimal('1.5'), Decimal('2')], [Decimal('1E+3'), Decimal('0.0000001'), Decimal('-0.5'), Decimal('0')], []]
        return [['a', 'b'], ['a'], []]
    if cname in ('HandleAttributeProperty', 'HandleRefAttributeProperty', 'LocalizedTextRefAttributeProperty'):
        return ['h.1', 'x']
    if cname == 'QNameAttributeProperty':
        return [etree.QName('urn:verif', 'q1')]
    if cname in ('TimestampAttributeProperty', 'CurrentTimestampAttributeProperty'):
        return [1.5, 1700000000.123, 0.0]
    if cname in ('DecimalAttributeProperty', 'QualityIndicatorAttributeProperty', 'NodeDecimalProperty'):
        if cname == 'QualityIndicatorAttributeProperty':
            return [Decimal('0.5'), Decimal('1')]
        return [Decimal('1.5'), Decimal('0.0000001'), Decimal('-123456789012.345678'), Decimal('0')]
    if cname in ('DurationAttributeProperty', 'NodeDurationProperty'):
        return [2.0, 0.001, 3661.5]
    if cname in ('IntegerAttributeProperty', 'NodeIntProperty'):
        return [3, 0, -7]
    if cname in ('UnsignedIntAttributeProperty', 'VersionCounterAttributeProperty', 'ReferencedVersionAttributeProperty'):
        return [3, 0, 4294967295]
    if cname == 'BooleanAttributeProperty':
        return [True, False]
    if isinstance(prop, xs.StringAttributeProperty):
        return ['x', 'a<&"\' ä€', 'two words']
    if cname in ('NodeStringProperty', 'AnyUriTextElement'):
        return ['text', 'a<&>" ä€', 'urn:x:y']
    if cname == 'NodeTextProperty':
        kname = type(conv).__name__ if not isinstance(conv, type) else conv.__name__
        if 'Int' in kname:
            return [3, 0, 4294967295] if 'Unsigned' in kname else [3, 0]
        if 'Decimal' in kname:
            return [Decimal('1.5'), Decimal('0')]
        if 'Duration' in kname:
            return [2.0, 0.001]
        if 'Timestamp' in kname:
            return [1.5, 1700000000.123]
        if 'Bool' in kname:
            return [True, False]
        return ['text', 'a<&>" ä€']
    if cname == 'NodeTextQNameProperty':
        return [etree.QName('urn:verif', 'q1')]
    if cname == 'NodeTextQNameListProperty':
        return [[etree.QName('urn:verif', 'q1'), etree.QName('urn:verif2', 'q2')], []]
    if cname == 'NodeTextListProperty':
        return [['w1', 'w2'], ['w1']]
    if cname == 'DateOfBirthProperty':
        return [isoduration.XsdDateInformation(2000, 1, 2), isoduration.XsdDateInformation(1999)]
    if cname in ('SubElementTextListProperty', 'SubElementStringListProperty', 'SubElementHandleRefListProperty'):
        elem = getattr(conv, '_element_converter', None)
        klass = getattr(elem, '_klass', (str,))
        k = klass[0] if isinstance(klass, tuple) else klass
        if k is int:
            return [[1, 2], [3]]
        if isinstance(k, type) and issubclass(k, _enum.Enum):
            return [[list(k)[0]], list(k)[:2]]
        return [['a', 'b'], ['a']]
    if cname == 'ExtensionNodeProperty':
        def ext(i):
            el = etree.Element(etree.QName('urn:verif:ext', f'Ext{i}'), attrib={'a': str(i)})
            etree.SubElement(el, etree.QName('urn:verif:ext', 'Child')).text = f'c{i}'
            return el
        return [[ext(1)], [ext(1), ext(2)]]
    if cname in ('SubElementProperty', 'ContainerProperty', 'SubElementWithSubElementListProperty'):
        if depth <= 0:
            return []
        vc = getattr(prop, 'value_class', None)
        inst = new(vc) if vc is not None else None
        if inst is None:
            return []
        populate(inst, depth - 1)
        return [inst]
    if cname in ('SubElementListProperty', 'ContainerListProperty'):
        if depth <= 0:
            return []
        vc = getattr(prop, 'value_class', None)
        a, b = (new(vc), new(vc)) if vc is not None else (None, None)
        if a is None:
            return []
        populate(a, depth - 1)
        populate(b, depth - 1, variant=1)
        return [[a], [a, b]]
    return []


def populate(obj, depth=2, variant=0, only_absent=True):
    """Give every declared property a value from its domain (best effort); returns names that were set."""
    done = []
    for name, prop in obj.sorted_container_properties():
        try:
            cur = prop.get_actual_value(obj)
        except Exception:  # noqa: BLE001
            cur = None
        if only_absent and cur not in (None, []) and not is_struct(cur):
            continue
        if is_struct(cur):
            populate(cur, depth - 1, variant, only_absent)
            continue
        try:
            dom = domain(prop, depth)
        except Exception:  # noqa: BLE001
            dom = []
        if not dom:
            continue
        val = dom[variant % len(dom)]
        try:
            setattr(obj, name, val)
            done.append(name)
        except Exception:  # noqa: BLE001
            continue
    return done
