"""C13 - Request handling is total: any input gets a response; no hang, crash or XXE.

Engine I. The corpus is every request type the library itself produces (captured from the loop-back wire while a
consumer and a provider run a script that touches every service, plus every notification type and SubscriptionEnd).
Every corpus request is put through EVERY single structure-aware mutation (each element deleted / duplicated / renamed /
moved to a foreign namespace, each attribute deleted / renamed / set to each hostile value, each text set to each
hostile value, every other action, every other path, DOCTYPE/entity variants, truncation after every tag), every HTTP
framing variant (content-length forms, chunked forms incl. truncation at every position class, content-encodings) and a
bounded-exhaustive set of raw byte strings. Each input is handed as raw bytes on an in-memory socket to the real
DispatchingRequestHandler whose dispatcher holds the real message converters of a started provider and a subscribed
consumer.

Isolation: every case meets the same pristine world - the world (0.12 s to build, fully virtualised clock / uuids / ports,
so every build is identical) is rebuilt as soon as a request changed any state. A case that does not finish within the
watchdog time is a hang.

Oracle per input:
 * the handler returns (no exception escapes into the server loop, no spin on an exhausted stream, no hang),
 * the output is one or more well-formed HTTP responses (status line, consistent length),
 * if a message converter was reached its answer is a well-formed SOAP envelope, a fault if the status is >= 400,
 * entity markers never show up expanded in the response or in any MDIB, the secret file is never read,
 * a rejected request (HTTP >= 400, SOAP fault, InvocationState Fail) leaves provider MDIB, consumer MDIB, the provider's
   subscription tables and the consumer's subscriptions unchanged,
 * unmutated corpus requests are answered properly (non-vacuity).
"""
from __future__ import annotations

import copy
import gzip
import http.client
import io
import itertools
import re
import signal
import zlib
from decimal import Decimal
from pathlib import Path

from lxml import etree

from mcx import alphabet as A
from mcx import canon, world
from mcx.runner import h64

PROPERTY = 'C13'
TECHNIQUE = ('bounded-exhaustive enumeration of all single structure-aware mutations, HTTP framing variants and short raw '
             'byte strings of every request type the library produces, each executed on a pristine '
             'provider+consumer world through the real DispatchingRequestHandler and message converters')

SECRET = Path(__file__).resolve().parents[2] / 'fixtures' / 'c13_secret.txt'
SECRET_MARK = b'C13-SECRET-FILE-CONTENT-7f3a'
ENTITY_MARK = b'C13ENTITYEXPANDED'
WATCHDOG = 30.0
HOSTILE = ['', '-1', '0', '99999999999999999999999999999999', '1e999', 'NaN', 'no.such.handle', ' ', 'true', 'P99999999999Y',
           '-PT1S', 'x' * 3000, 'urn:uuid:00000000-0000-0000-0000-000000000000', 'http://[', 'ä€\U0001F600',
           # handles that exist, but name an entity of another kind than the request means
           'numeric.ch0.vmd0', 'ch0.vmd0', 'mds0']


HEADER_VALUES = ['', ' ', '[::1', 'localhost:http', '10.0.0.1:99999', 'a' * 9000, '\x01', 'ä', '-1', 'evil.example', 'a b', '*',
                 'text/plain', 'application/soap+xml; charset=utf-16', 'application/soap+xml; charset=x-unknown', 'gzip;q=abc',
                 'chunked', 'close', 'keep-alive', '100-continue', 'http://[']
HEADERS = ['Host', 'Content-Type', 'Accept-Encoding', 'Connection', 'Expect', 'Content-Encoding', 'Transfer-Encoding', 'X-Unknown',
           'SOAPAction', 'Accept']


class SpinDetected(BaseException):
    pass


class CountingStream(io.BytesIO):
    """Waiting made visible: the peer has closed the connection (read returns b''); a reader that keeps reading is spinning."""

    def __init__(self, data):
        super().__init__(data)
        self.empty_reads = 0
        self.unbounded_reads = 0

    def _count(self, got):
        if not got:
            self.empty_reads += 1
            if self.empty_reads > 200:
                raise SpinDetected(f'{self.empty_reads} reads after the end of a {len(self.getvalue())} byte stream')
        return got

    def read(self, n=-1):
        if n is None or n < 0:
            self.unbounded_reads += 1     # on a socket: blocks until the peer closes the connection
        return self._count(super().read(n))

    def readline(self, n=-1):
        return self._count(super().readline(n))


class _Writer:
    def __init__(self, out):
        self.out = out

    def write(self, data):
        self.out.write(data)
        return len(data)

    def flush(self):
        pass

    def close(self):
        pass


class _ReqSock:
    def __init__(self, raw):
        self.rfile = CountingStream(raw)
        self.out = io.BytesIO()

    def makefile(self, mode='rb', *a, **k):  # noqa: ARG002
        return self.rfile if 'r' in mode else _Writer(self.out)

    def getpeername(self):
        return ('10.0.0.9', 1234)

    def sendall(self, data):
        self.out.write(data)

    def settimeout(self, t):
        pass

    def setsockopt(self, *a):
        pass


class _Recorder:
    """Wraps a message converter: records that it was reached and what it returned."""

    def __init__(self, inner, log, side):
        self.inner, self.log, self.side = inner, log, side

    def do_post(self, headers, path, peer, data):
        entry = {'kind': 'post', 'raised': None, 'result': None, 'side': self.side}
        self.log.append(entry)
        try:
            entry['result'] = self.inner.do_post(headers, path, peer, data)
        except BaseException as ex:
            entry['raised'] = repr(ex)[:200]
            raise
        return entry['result']

    def do_get(self, headers, path, peer):
        entry = {'kind': 'get', 'raised': None, 'result': None, 'side': self.side}
        self.log.append(entry)
        try:
            entry['result'] = self.inner.do_get(headers, path, peer)
        except BaseException as ex:
            entry['raised'] = repr(ex)[:200]
            raise
        return entry['result']


class _Server:
    def __init__(self, supported=('gzip', 'deflate'), chunk_size=0):
        import logging
        from sdc11073 import loghelper
        from sdc11073.dispatch import PathElementRegistry
        self.dispatcher = PathElementRegistry()
        self.supported_encodings = list(supported)
        self.chunk_size = chunk_size
        self.logger = loghelper.get_logger_adapter('verif.c13')
        logging.getLogger('verif.c13').setLevel(logging.CRITICAL)


# ---------------------------------------------------------------------------------------------- the world
def _tag(data):
    m = re.search(rb'Body>\s*<(?:[A-Za-z0-9_]+:)?([A-Za-z]+)', data or b'')
    return m.group(1).decode() if m else 'TransferGet'


class Target:
    """One pristine world: a started provider, a subscribed consumer with an mdib; plus the request corpus."""

    def __init__(self):
        import logging
        logging.disable(logging.CRITICAL)
        self.w = world.World()
        self.p = self.w.mk_provider()
        self.p.localization_storage.add(*_texts())
        self.c = self.w.mk_consumer(self.p)
        self.cm = self.w.mk_consumer_mdib(self.c)
        self.conv_log = []
        self.server = _Server()
        self.server.dispatcher.register_instance(self.p.path_prefix, _Recorder(self.p._msg_converter, self.conv_log, 'provider'))
        self.server.dispatcher.register_instance(self.c.path_prefix, _Recorder(self.c._msg_converter, self.conv_log, 'consumer'))
        self.corpus = None
        from sdc11073.httpserver.httprequesthandler import DispatchingRequestHandler
        DispatchingRequestHandler.log_message = lambda self, fmt, *args: None   # stdlib access log on stderr

    # -- corpus capture on a second, identical world (same virtual uuids, same virtual time)
    @staticmethod
    def capture():
        import logging
        logging.disable(logging.CRITICAL)
        w = world.World()
        p = w.mk_provider()
        p.localization_storage.add(*_texts())
        c = w.mk_consumer(p)
        m = w.mk_consumer_mdib(c)

        def attempt(fn):
            try:
                fn()
            except Exception:  # noqa: BLE001  (not-implemented services answer with a fault; still a request type)
                pass
        g = c.client('Get')
        attempt(g.get_md_description)
        attempt(lambda: g.get_md_state(['numeric.ch0.vmd0']))
        ctx = c.client('Context')
        attempt(lambda: ctx.get_context_states([A.PAT]))
        s = c.client('Set')
        attempt(lambda: s.set_string('DN_SET', 'hello'))
        attempt(lambda: s.set_numeric_value('numeric.ch0.vmd1_sco_0', Decimal(5)))
        attempt(lambda: s.activate('actop.mds0_sco_0', None))

        def set_ctx():
            st = ctx.mk_proposed_context_object(A.PAT)
            st.CoreData.Givenname = 'Op'
            ctx.set_context_state('opSetPatCtx', [st])
        attempt(set_ctx)

        def set_alert():
            st = m.states.descriptor_handle.get_one('as0.mds0_rem').mk_copy()
            st.ActivationState = A._pm().AlertActivation.PAUSED
            s.set_alert_state('as0.mds0_rem_dele', st)
        attempt(set_alert)
        world.drain_operations(p)
        loc = c.client('LocalizationService')
        attempt(lambda: loc.get_localized_texts(['a'], 1, ['en'], None, [1]))
        attempt(loc.get_supported_languages)
        ct = c.client('ContainmentTree')
        if ct is not None:
            attempt(lambda: ct.get_containment_tree(['mds0']))
            attempt(lambda: ct.get_descriptor(['mds0']))
        attempt(c.send_probe)
        for name in ('metric(N1,1)', 'alert-cond(on)', 'component(vmd0,on)', 'location(1)', 'rt(1,2,3)', 'update-descr(CH)',
                     'operational(dis)'):
            attempt(lambda name=name: A.EVENT_BY_NAME[name](p))

        def two_metrics():
            with p.mdib.metric_state_transaction() as tr:
                for h in (A.NUM1, A.NUM2):
                    st = tr.get_state(h)
                    if st.MetricValue is None:
                        st.mk_metric_value()
                    st.MetricValue.Value = Decimal(9)
        attempt(two_metrics)                                   # a report with two states

        def two_components():
            with p.mdib.component_state_transaction() as tr:
                for h in (A.CH, A.VMD):       # the state whose class has extra members comes second
                    tr.get_state(h).OperatingHours = 11
        attempt(two_components)                                # a component report with two states of different classes
        attempt(lambda: A.EVENT_BY_NAME['location(2)'](p))     # a context report with two states (old one disassociated)
        # description modification reports that change indexed members (ConditionSignaled, Source) and carry the state
        for name in ('update-cond-signaled', 'update-alert-source'):
            attempt(lambda name=name: A.EVENT_BY_NAME[name](p))
        subs = list(c.subscription_mgr.subscriptions.values())
        for sub in subs:
            attempt(lambda sub=sub: sub.renew(30))
            attempt(sub.get_status)
        attempt(subs[-1].unsubscribe)
        attempt(lambda: p.stop_all(send_subscription_end=True))
        corpus = {}
        for msg in w.wire.log:
            side = 'provider' if msg.src.name.startswith('consumer') else 'consumer'
            els = msg.path.split('/')
            service = els[2] if len(els) > 2 else ''
            if side == 'consumer':
                service = 'notify' if not service.endswith('_e') else 'end'
            depth = 'sub' if (side == 'provider' and len(els) > 3) else ''
            if _tag(msg.data) == 'DescriptionModificationReport':
                m = re.search(rb'<[A-Za-z0-9_]*:?Descriptor [^>]*type="[A-Za-z0-9_]*:?([A-Za-z]+)"', msg.data)
                service += '' if m is None else ''
                dmr_kind = m.group(1).decode() if m else ''
            else:
                dmr_kind = ''
            multi = '#multi' if len(re.findall(rb'<[A-Za-z0-9_]*:?(?:MetricState|ContextState|AlertState|ComponentState)[ >]', msg.data)) > 1 else ''
            key = f'{side}:{service}{"/" + depth if depth else ""}:{_tag(msg.data)}{multi}{("#" + dmr_kind) if dmr_kind else ""}'
            if key not in corpus:
                corpus[key] = {'key': key, 'side': side, 'path': msg.path, 'data': msg.data, 'ok_status': msg.status}
        return corpus

    # -- state
    def fingerprint(self, sides=('provider', 'consumer')):
        out = {}
        if 'provider' in sides:
            subs = []
            for name, mgr in sorted(self.p._subscriptions_managers.items()):
                for s in mgr._subscriptions.objects:
                    subs.append((name, str(s.identifier_uuid), s.notify_to_address, s.end_to_address,
                                 tuple(sorted(s.filters)) if hasattr(s, 'filters') else None,
                                 round(s.remaining_seconds, 3), s.is_closed(), s.unsubscribed_at is not None, s.notify_errors))
            out['provider-mdib'] = canon.snapshot(self.p.mdib)
            out['provider-mdib-lookups'] = sorted(canon.mdib_scan(self.p.mdib))
            out['provider-subscriptions'] = sorted(subs, key=str)
        if 'consumer' in sides:
            out['consumer-mdib'] = canon.snapshot(self.cm)
            out['consumer-mdib-validity'] = str(self.cm._state)
            out['consumer-mdib-lookups'] = sorted(canon.mdib_scan(self.cm))
            out['consumer-subscriptions'] = [
                (str(k), v.is_subscribed, v.end_status is not None, round(v.expires_at, 3))
                for k, v in sorted(self.c.subscription_mgr.subscriptions.items(), key=lambda kv: str(kv[0]))]
        return out


def _texts():
    from sdc11073.xml_types.pm_types import LocalizedText
    return [LocalizedText('hello', lang='en', ref='a', version=1), LocalizedText('hallo', lang='de', ref='a', version=1)]


_TARGET = None
_CORPUS = None


_REBUILD_CHECKED = False


def target():
    global _TARGET, _CORPUS
    if _TARGET is None:
        _CORPUS = Target.capture()
        _TARGET = Target()
        _TARGET.corpus = _CORPUS
        _TARGET.base = _TARGET.fingerprint()
    return _TARGET


# ---------------------------------------------------------------------------------------------- inputs
def _elements(root):
    return [e for e in root.iter() if isinstance(e.tag, str)]


def xml_mutations(data):
    """All single structure-aware mutations of one request document, as small descriptors."""
    root = etree.fromstring(data)
    els = _elements(root)
    out = []
    for i, e in enumerate(els):
        if i > 0:
            out += [('del', i), ('dup', i), ('rename', i, 'local'), ('rename', i, 'ns'), ('rename', i, 'nons')]
        for a in sorted(e.attrib):
            out += [('attr-del', i, a), ('attr-rename', i, a)]
            out += [('attr-set', i, a, v) for v in range(len(HOSTILE))]
        if len(e) == 0:
            out += [('text', i, v) for v in range(len(HOSTILE))]
            out.append(('child', i))
        if i > 0 and e.getprevious() is not None:
            out.append(('swap', i))
    return out


def apply_xml_mutation(data, mut):
    root = etree.fromstring(data)
    els = _elements(root)
    kind = mut[0]
    e = els[mut[1]]
    if kind == 'del':
        e.getparent().remove(e)
    elif kind == 'dup':
        e.addnext(copy.deepcopy(e))
    elif kind == 'rename':
        q = etree.QName(e)
        if mut[2] == 'local':
            e.tag = f'{{{q.namespace}}}{q.localname}X' if q.namespace else q.localname + 'X'
        elif mut[2] == 'ns':
            e.tag = f'{{urn:verif:other}}{q.localname}'
        else:
            e.tag = q.localname
    elif kind == 'attr-del':
        del e.attrib[mut[2]]
    elif kind == 'attr-rename':
        v = e.attrib.pop(mut[2])
        e.set(mut[2] + 'X' if not mut[2].startswith('{') else mut[2] + 'X', v)
    elif kind == 'attr-set':
        e.set(mut[2], HOSTILE[mut[3]])
    elif kind == 'text':
        e.text = HOSTILE[mut[2]]
    elif kind == 'child':
        etree.SubElement(e, '{urn:verif:other}Unexpected').text = 'x'
    elif kind == 'swap':
        prev = e.getprevious()
        prev.addprevious(e)
    return etree.tostring(root)


DOCTYPES = {
    'internal-entity': (b'<!DOCTYPE d [<!ENTITY e "' + ENTITY_MARK + b'">]>', b'&e;'),
    'external-file-entity': (b'<!DOCTYPE d [<!ENTITY e SYSTEM "file://' + str(SECRET).encode() + b'">]>', b'&e;'),
    'external-http-entity': (b'<!DOCTYPE d [<!ENTITY e SYSTEM "http://10.0.0.99/secret">]>', b'&e;'),
    'parameter-entity': (b'<!DOCTYPE d [<!ENTITY % p SYSTEM "file://' + str(SECRET).encode() + b'"> %p;]>', b''),
    'external-dtd': (b'<!DOCTYPE d SYSTEM "file://' + str(SECRET).encode() + b'">', b''),
    'nested-entities': (b'<!DOCTYPE d [<!ENTITY a "' + ENTITY_MARK + b'"><!ENTITY b "&a;&a;&a;&a;&a;&a;&a;&a;">'
                        b'<!ENTITY c "&b;&b;&b;&b;&b;&b;&b;&b;"><!ENTITY e "&c;&c;&c;&c;&c;&c;&c;&c;">]>', b'&e;'),
    'doctype-only': (b'<!DOCTYPE d>', b''),
    'undeclared-entity': (b'', b'&undeclared;'),
    'xinclude': (b'', b'<xi:include xmlns:xi="http://www.w3.org/2001/XInclude" parse="text" href="file://' + str(SECRET).encode() + b'"/>'),
}


def doctype_cases(data):
    """DOCTYPE variants x every text and every attribute position of the request (the reference replaces the value)."""
    root = etree.fromstring(data)
    els = _elements(root)
    leaves = [i for i, e in enumerate(els) if len(e) == 0 and (e.text or '').strip()]
    attrs = [(i, a) for i, e in enumerate(els) for a in sorted(e.attrib)]
    out = []
    for name, (decl, ref) in DOCTYPES.items():
        out.append(('doctype', name, None, None))
        if not ref:
            continue
        for i in leaves:
            out.append(('doctype', name, i, None))
        if ref.startswith(b'&'):
            for i, a in attrs:
                out.append(('doctype', name, i, a))
    return out


def apply_doctype(data, mut):
    _, name, idx, attr = mut
    decl, ref = DOCTYPES[name]
    root = etree.fromstring(data)
    token = b'C13REFPLACEHOLDER'
    if idx is not None and ref:
        if attr is None:
            _elements(root)[idx].text = token.decode()
        else:
            _elements(root)[idx].set(attr, token.decode())
    body = etree.tostring(root)
    body = body.replace(token, ref)
    return b'<?xml version="1.0" encoding="UTF-8"?>' + decl + body


ENCODINGS = ['utf-16', 'utf-16-le', 'utf-16-be', 'utf-8-sig', 'iso-8859-1', 'utf-32', 'utf-8-declared-utf-16', 'us-ascii', 'utf-7', 'cp037']


def encoding_cases(data):
    """The request (plain, and with an internal entity referenced from an attribute) in other character encodings."""
    out = [('encoding', e, None) for e in ENCODINGS]
    root = etree.fromstring(data)
    attrs = [(i, a) for i, e in enumerate(_elements(root)) for a in sorted(e.attrib)]
    first = attrs[0] if attrs else None
    for e in ENCODINGS:
        for name in ('internal-entity', 'nested-entities', 'external-file-entity', 'doctype-only'):
            out.append(('encoding', e, name) + ((first[0], first[1]) if first and DOCTYPES[name][1].startswith(b'&') else (None, None)))
    return out


def apply_encoding(data, mut):
    enc, name = mut[1], mut[2]
    body = data
    if name is not None:
        idx, attr = mut[3], mut[4]
        body = apply_doctype(data, ('doctype', name, idx, attr))
    text = body.decode('utf-8')
    text = re.sub(r'^<\?xml[^>]*\?>', '', text).lstrip()
    if enc == 'utf-8-declared-utf-16':
        return ('<?xml version="1.0" encoding="utf-16"?>' + text).encode('utf-8')
    decl_name = {'utf-16-le': 'utf-16', 'utf-16-be': 'utf-16', 'utf-8-sig': 'utf-8'}.get(enc, enc)
    payload = ('<?xml version="1.0" encoding="%s"?>' % decl_name) + text
    try:
        raw = payload.encode(enc)
    except UnicodeEncodeError:
        raw = payload.encode(enc, 'xmlcharrefreplace')
    if enc in ('utf-16-le', 'utf-16-be'):
        raw = (b'\xff\xfe' if enc == 'utf-16-le' else b'\xfe\xff') + raw
    return raw


def truncations(data):
    cuts = sorted({m.end() for m in re.finditer(rb'>', data)} | {m.start() + 1 for m in re.finditer(rb'<', data)})
    return [('trunc', c) for c in cuts if c < len(data)]


RAW_TOKENS = [b'<', b'>', b'a', b'&', b'\x00', b'\xff', b'"', b'<?xml version="1.0"?>', b'<s:Envelope xmlns:s="http://www.w3.org/2003/05/soap-envelope">',
              b'</s:Envelope>', b'<s:Body/>', b'<s:Header/>']
WIRE_TOKENS = [b'POST ', b'GET ', b'/', b' HTTP/1.1', b'\r\n', b'\x00', b'Content-Length: 5\r\n', b':', b'Transfer-Encoding: chunked\r\n',
               b'5\r\nhello\r\n', b'0\r\n\r\n']


def mk_http(method, path, body, headers=None, framing='cl'):
    h = [('Host', '10.0.0.1:8000'), ('Content-Type', 'application/soap+xml; charset=utf-8')]
    h += list(headers or [])
    payload = body
    if framing == 'cl':
        h.append(('Content-Length', str(len(body))))
    head = f'{method} {path} HTTP/1.1\r\n'.encode('latin-1') + b''.join(
        f'{k}: {v}\r\n'.encode('latin-1') for k, v in h) + b'\r\n'
    return head + payload


def chunked(body, size):
    from sdc11073.httpserver.httpreader import mk_chunks
    return mk_chunks(body, size)


def framing_cases():
    out = [('frame', n) for n in (
        'cl-missing', 'cl-zero', 'cl-short', 'cl-long', 'cl-negative', 'cl-nonnumeric', 'cl-huge', 'cl-empty', 'cl-float',
        'cl-plus', 'cl-twice', 'cl-hex', 'chunked-16', 'chunked-1', 'chunked-whole', 'chunked-upper', 'chunked-ext',
        'chunked-and-cl', 'chunked-negative-size', 'chunked-nonhex-size', 'chunked-empty-size', 'chunked-huge-size',
        'chunked-no-crlf-after-data', 'chunked-long-size-line', 'chunked-no-terminator', 'chunked-only-terminator',
        'chunked-trailer', 'chunked-gzip-te', 'chunked-0x-size', 'chunked-plus-size', 'chunked-space-size',
        'enc-unsupported', 'enc-unknown', 'enc-gzip-plain', 'enc-gzip-valid', 'enc-gzip-truncated', 'enc-gzip-empty',
        'enc-deflate-valid', 'enc-deflate-garbage', 'enc-gzip-bomb', 'enc-identity', 'enc-two', 'enc-upper',
        'no-content-type', 'http10', 'expect-100', 'connection-close', 'two-requests', 'header-only-eof', 'half-header')]
    out += [('frame', f'chunked-trunc@{k}') for k in range(0, 12)]
    return out


def apply_framing(path, body, name):
    def base(headers, payload, framing=None):
        return mk_http('POST', path, payload, headers, framing=framing)
    n = len(body)
    if name == 'cl-missing':
        return base([], body)
    if name == 'cl-zero':
        return base([('Content-Length', '0')], body)
    if name == 'cl-short':
        return base([('Content-Length', str(n - 10))], body)
    if name == 'cl-long':
        return base([('Content-Length', str(n + 10))], body)
    if name == 'cl-negative':
        return base([('Content-Length', '-1')], body)
    if name == 'cl-nonnumeric':
        return base([('Content-Length', 'abc')], body)
    if name == 'cl-huge':
        return base([('Content-Length', str(10 ** 12))], body)
    if name == 'cl-empty':
        return base([('Content-Length', '')], body)
    if name == 'cl-float':
        return base([('Content-Length', f'{n}.0')], body)
    if name == 'cl-plus':
        return base([('Content-Length', f'+{n}')], body)
    if name == 'cl-twice':
        return base([('Content-Length', str(n)), ('Content-Length', '3')], body)
    if name == 'cl-hex':
        return base([('Content-Length', hex(n))], body)
    te = [('Transfer-Encoding', 'chunked')]
    if name == 'chunked-16':
        return base(te, chunked(body, 16))
    if name == 'chunked-1':
        return base(te, chunked(body[:300], 1) if False else chunked(body, 7))
    if name == 'chunked-whole':
        return base(te, chunked(body, n))
    if name == 'chunked-upper':
        return base([('Transfer-Encoding', 'CHUNKED')], chunked(body, 64))
    if name == 'chunked-ext':
        return base(te, f'{n:x};name=value\r\n'.encode() + body + b'\r\n0\r\n\r\n')
    if name == 'chunked-and-cl':
        return base(te + [('Content-Length', '5')], chunked(body, 64))
    if name == 'chunked-negative-size':
        return base(te, b'-5\r\n' + body + b'\r\n0\r\n\r\n')
    if name == 'chunked-nonhex-size':
        return base(te, b'zz\r\n' + body + b'\r\n0\r\n\r\n')
    if name == 'chunked-empty-size':
        return base(te, b'\r\n' + body + b'\r\n0\r\n\r\n')
    if name == 'chunked-huge-size':
        return base(te, b'ffffffffffff\r\n' + body + b'\r\n0\r\n\r\n')
    if name == 'chunked-no-crlf-after-data':
        return base(te, f'{n:x}\r\n'.encode() + body + b'0\r\n\r\n')
    if name == 'chunked-long-size-line':
        return base(te, b'0' * 40 + f'{n:x}\r\n'.encode() + body + b'\r\n0\r\n\r\n')
    if name == 'chunked-no-terminator':
        return base(te, f'{n:x}\r\n'.encode() + body + b'\r\n')
    if name == 'chunked-only-terminator':
        return base(te, b'0\r\n\r\n')
    if name == 'chunked-trailer':
        return base(te, f'{n:x}\r\n'.encode() + body + b'\r\n0\r\nX-Trailer: 1\r\n\r\n')
    if name == 'chunked-gzip-te':
        return base([('Transfer-Encoding', 'gzip, chunked')], chunked(body, 64))
    if name == 'chunked-0x-size':
        return base(te, b'0x' + f'{n:x}\r\n'.encode() + body + b'\r\n0\r\n\r\n')
    if name == 'chunked-plus-size':
        return base(te, b'+' + f'{n:x}\r\n'.encode() + body + b'\r\n0\r\n\r\n')
    if name == 'chunked-space-size':
        return base(te, b' ' + f'{n:x} \r\n'.encode() + body + b'\r\n0\r\n\r\n')
    if name.startswith('chunked-trunc@'):
        k = int(name.split('@')[1])
        full = chunked(body, max(1, n // 2))
        # position classes: inside first size line, right after it, inside data, at end of data, inside CRLF, second size line ...
        first_line = full.index(b'\r\n')
        half = max(1, n // 2)
        cuts = [0, 1, first_line, first_line + 1, first_line + 2, first_line + 2 + half // 2, first_line + 2 + half,
                first_line + 2 + half + 1, first_line + 2 + half + 2, first_line + 2 + half + 3, len(full) - 4, len(full) - 2]
        return base(te, full[:cuts[k]])
    gz = gzip.compress(body)
    if name == 'enc-unsupported':
        return base([('Content-Encoding', 'br')], body, 'cl')
    if name == 'enc-unknown':
        return base([('Content-Encoding', 'x-verif')], body, 'cl')
    if name == 'enc-gzip-plain':
        return base([('Content-Encoding', 'gzip')], body, 'cl')
    if name == 'enc-gzip-valid':
        return base([('Content-Encoding', 'gzip')], gz, 'cl')
    if name == 'enc-gzip-truncated':
        return base([('Content-Encoding', 'gzip')], gz[:len(gz) // 2], 'cl')
    if name == 'enc-gzip-empty':
        return base([('Content-Encoding', 'gzip')], b'', 'cl')
    if name == 'enc-deflate-valid':
        return base([('Content-Encoding', 'deflate')], zlib.compress(body), 'cl')
    if name == 'enc-deflate-garbage':
        return base([('Content-Encoding', 'deflate')], b'\x00\x01garbage', 'cl')
    if name == 'enc-gzip-bomb':
        return base([('Content-Encoding', 'gzip')], gzip.compress(b' ' * (8 * 1024 * 1024) + body), 'cl')
    if name == 'enc-identity':
        return base([('Content-Encoding', 'identity')], body, 'cl')
    if name == 'enc-two':
        return base([('Content-Encoding', 'gzip, gzip')], gzip.compress(gz), 'cl')
    if name == 'enc-upper':
        return base([('Content-Encoding', 'GZIP')], gz, 'cl')
    if name == 'no-content-type':
        return (f'POST {path} HTTP/1.1\r\nHost: h\r\nContent-Length: {n}\r\n\r\n').encode() + body
    if name == 'http10':
        return (f'POST {path} HTTP/1.0\r\nContent-Length: {n}\r\n\r\n').encode() + body
    if name == 'expect-100':
        return base([('Expect', '100-continue')], body, 'cl')
    if name == 'connection-close':
        return base([('Connection', 'close')], body, 'cl')
    if name == 'two-requests':
        return base([], body, 'cl') + base([], body, 'cl')
    if name == 'header-only-eof':
        return mk_http('POST', path, b'', [('Content-Length', str(n))], framing=None)
    if name == 'half-header':
        return mk_http('POST', path, b'', [('Content-Length', str(n))], framing=None)[:-10]
    raise ValueError(name)


def materialise(corpus, case):
    """case -> raw bytes of the connection."""
    kind = case['mut'][0]
    if kind == 'wire':
        return b''.join(WIRE_TOKENS[i] for i in case['mut'][1])
    req = corpus[case['req']]
    path, data = req['path'], req['data']
    mut = tuple(case['mut'])
    if kind == 'none':
        return mk_http('POST', path, data)
    if kind in ('del', 'dup', 'rename', 'attr-del', 'attr-rename', 'attr-set', 'text', 'child', 'swap'):
        return mk_http('POST', path, apply_xml_mutation(data, mut))
    if kind == 'action':
        other = corpus[mut[1]]['data']
        m = re.search(rb'Action[^>]*>([^<]+)<', other)
        new = re.sub(rb'(Action[^>]*>)([^<]+)(<)', lambda mm: mm.group(1) + (m.group(1) if m else b'urn:x') + mm.group(3), data, count=1)
        return mk_http('POST', path, new)
    if kind == 'action-literal':
        new = re.sub(rb'(Action[^>]*>)([^<]+)(<)', lambda mm: mm.group(1) + mut[1].encode() + mm.group(3), data, count=1)
        return mk_http('POST', path, new)
    if kind == 'path':
        return mk_http('POST', mut[1], data)
    if kind == 'path-of':
        return mk_http('POST', corpus[mut[1]]['path'], data)
    if kind == 'doctype':
        return mk_http('POST', path, apply_doctype(data, mut))
    if kind == 'encoding':
        return mk_http('POST', path, apply_encoding(data, mut))
    if kind == 'trunc':
        return mk_http('POST', path, data[:mut[1]])
    if kind == 'raw':
        return mk_http('POST', path, b''.join(RAW_TOKENS[i] for i in mut[1]))
    if kind == 'frame':
        return apply_framing(path, data, mut[1])
    if kind == 'header':
        name, value = HEADERS[mut[1]], HEADER_VALUES[mut[2]]
        h = [(k, v) for k, v in (('Host', '10.0.0.1:8000'), ('Content-Type', 'application/soap+xml; charset=utf-8')) if k != name]
        head = f'POST {path} HTTP/1.1\r\n'.encode('latin-1') + b''.join(f'{k}: {v}\r\n'.encode('latin-1') for k, v in h)
        head += f'{name}: {value}\r\n'.encode('latin-1') + f'Content-Length: {len(data)}\r\n\r\n'.encode()
        return head + data
    if kind == 'method':
        return mk_http(mut[1], mut[2] if len(mut) > 2 else path, data if mut[1] not in ('GET', 'HEAD') else b'',
                       framing='cl' if mut[1] not in ('GET', 'HEAD') else None)
    if kind == 'get':
        return f'GET {mut[1]} HTTP/1.1\r\nHost: h\r\n\r\n'.encode('latin-1')
    raise ValueError(kind)


# ---------------------------------------------------------------------------------------------- execution
def parse_responses(out, method=None):
    """Split the bytes written by the handler into HTTP responses. Returns (list of (status, headers, body), leftover_error)."""
    res = []
    pos = 0
    while pos < len(out):
        class _NoClose(io.BytesIO):
            def close(self):
                pass

        class S:
            def __init__(self, data):
                self.f = _NoClose(data)

            def makefile(self, *a, **k):  # noqa: ARG002
                return self.f
        s = S(out[pos:])
        if res and out[pos:pos + 15].upper().startswith(b'<!DOCTYPE HTML'):
            # http.server answers a follow-up request line it cannot parse in HTTP/0.9 style: the error page without a
            # status line (stdlib behaviour for the bytes that follow a request on the same connection)
            m = re.search(rb'Error code: (\d+)', out[pos:])
            res.append((int(m.group(1)) if m else 400, {}, out[pos:]))
            break
        r = http.client.HTTPResponse(s, method=method)
        try:
            r.begin()
            if r.status == 100:
                pass
            body = r.read()
        except Exception as ex:  # noqa: BLE001
            return res, f'malformed HTTP response at offset {pos}: {ex!r}'
        if not r.will_close and r.length not in (None, 0):
            return res, f'response body shorter than announced at offset {pos}'
        res.append((r.status, dict((k.lower(), v) for k, v in r.getheaders()), body))
        used = s.f.tell()
        if used == 0 or r.will_close:
            break
        pos += used
    return res, None


READ_ONLY_RESPONSES = {'GetMdibResponse', 'GetMdDescriptionResponse', 'GetMdStateResponse', 'GetContextStatesResponse', 'Metadata',
                       'ProbeMatches', 'GetStatusResponse', 'GetLocalizedTextResponse', 'GetSupportedLanguagesResponse'}


def _body_tag(body):
    m = re.search(rb'Body>\s*<(?:[A-Za-z0-9_]+:)?([A-Za-z]+)', body or b'')
    return m.group(1).decode() if m else None


def judge_soap(status, body):
    """The answer of a message converter: a well-formed SOAP envelope, a fault if status >= 400."""
    if isinstance(body, str):
        body = body.encode('utf-8')
    if not body:
        return None if status < 300 else 'error status without a SOAP fault (empty body)'
    try:
        root = etree.fromstring(body)
    except etree.XMLSyntaxError as ex:
        return f'response body is not well-formed XML: {ex}'
    if etree.QName(root).localname != 'Envelope':
        return f'response root is {root.tag}, not a SOAP envelope'
    has_fault = any(etree.QName(e).localname == 'Fault' for e in root.iter() if isinstance(e.tag, str))
    if status >= 400 and not has_fault:
        return f'status {status} but the body is not a SOAP fault'
    return None


def is_rejection(responses, conv_entries):
    if not responses:
        return True
    for status, headers, body in responses:
        if status >= 300:
            continue
        if body and (b':Fault' in body or b'<Fault' in body):
            continue
        if body and re.search(rb'InvocationState>\s*Fail', body):
            continue
        return False
    return True


def run_case(T, case):
    """One input on the pristine world."""
    raw = materialise(T.corpus, case)
    del T.conv_log[:]
    n_wire = len(T.w.wire.log)
    sock = _ReqSock(raw)
    problems = []
    from sdc11073.httpserver.httprequesthandler import DispatchingRequestHandler
    try:
        DispatchingRequestHandler(sock, ('10.0.0.9', 1234), T.server)
    except SpinDetected as ex:
        problems.append(('spins-on-exhausted-stream', str(ex)))
    except BaseException as ex:  # noqa: BLE001
        import traceback
        tb = traceback.extract_tb(ex.__traceback__)
        where = next((f'{Path(f.filename).name}:{f.name}' for f in reversed(tb) if 'sdc11073' in f.filename), 'stdlib')
        problems.append((f'exception-escapes-into-server-loop/{type(ex).__name__}@{where}', repr(ex)[:200]))
    try:
        world.drain_operations(T.p)
    except Exception as ex:  # noqa: BLE001
        problems.append(('operation-worker-raises', repr(ex)[:200]))
    if sock.rfile.unbounded_reads:
        problems.append(('reads-until-connection-close', f'{sock.rfile.unbounded_reads} read() without size on the request stream'))
    out = sock.out.getvalue()
    responses, err = parse_responses(out, 'HEAD' if raw.startswith(b'HEAD ') else None)
    if err:
        problems.append(('malformed-http-response', err))
    first_line = raw.split(b'\n', 1)[0].strip()
    words = first_line.split()
    if not (len(words) == 3 and re.fullmatch(rb'HTTP/1\.[0-9]+', words[2])):
        # not an HTTP/1.x request line: http.server answers in HTTP/0.9 style (body only, maybe nothing) - only
        # termination is required of the library here
        first_line = b''
        problems = [p for p in problems if p[0] != 'malformed-http-response']
    escaped = any(p[0].startswith(('exception-escapes', 'spins')) for p in problems)
    if not responses and first_line and not escaped:
        problems.append(('no-response', f'{len(raw)} request bytes, {len(out)} response bytes'))
    for entry in T.conv_log:
        if entry['raised'] is not None:
            problems.append(('message-converter-raises', entry['raised']))
        elif entry['kind'] == 'post':
            st, reason, body = entry['result']
            why = judge_soap(st, body)
            if why:
                problems.append(('converter-answer-not-soap', why))
    blob = out
    for _st, hdrs, _body in responses:
        if 'x-injected' in hdrs:
            problems.append(('request-controlled-header-in-response', f'X-Injected: {hdrs["x-injected"]}'))
    if ENTITY_MARK in blob:
        problems.append(('entity-expanded-in-response', ''))
    if SECRET_MARK in blob:
        problems.append(('external-resource-in-response', ''))
    sent = len(T.w.wire.log) - n_wire
    rejected = is_rejection(responses, T.conv_log)
    changed = []
    if T.conv_log or sent:
        # state can only change through a message converter; the other party only through messages on the wire
        side = 'provider' if any(e['side'] == 'provider' for e in T.conv_log) else 'consumer'
        sides = ('provider', 'consumer') if sent or len({e['side'] for e in T.conv_log}) > 1 else (side,)
        if rejected:
            after = T.fingerprint(sides)
            changed = [k for k in after if after[k] != T.base[k]]
            text = repr(after).encode('utf-8', 'replace')
            if changed:
                problems.append((f'rejected-request-changed-state/{"+".join(changed)}', _diff(T.base, after, changed)))
        else:
            after = T.fingerprint(sides)
            changed = [k for k in after if after[k] != T.base[k]]
            text = repr(after).encode('utf-8', 'replace')
        if ENTITY_MARK in text:
            problems.append(('entity-expanded-into-state', ''))
        if SECRET_MARK in text:
            problems.append(('external-resource-in-state', ''))
    if case['mut'][0] == 'none':
        want = T.corpus[case['req']]['ok_status']
        got = responses[0][0] if responses else None
        if got != want:
            problems.append(('unmutated-request-not-answered-properly', f'status {got}, expected {want}'))
    statuses = tuple(r[0] for r in responses)
    if not rejected and T.conv_log and not all(_body_tag(r[2]) in READ_ONLY_RESPONSES for r in responses if r[0] < 300):
        changed = changed or ['accepted']   # not a read-only exchange: do not trust the fingerprint alone, start afresh
    return {'problems': problems, 'statuses': statuses, 'rejected': rejected, 'dirty': bool(changed) or sent > 0,
            'converter': len(T.conv_log), 'reads': sock.rfile.empty_reads}


def _diff(a, b, keys):
    out = {}
    for k in keys:
        if isinstance(a[k], dict):
            ca, cb = canon.content(a[k]) if 'provider-mdib' in k or 'consumer-mdib' in k else a[k], None
            try:
                cb = canon.content(b[k])
                out[k] = [str(x) for x in sorted(set(ca) | set(cb), key=str) if ca.get(x) != cb.get(x)][:6]
            except Exception:  # noqa: BLE001
                out[k] = 'differs'
        else:
            out[k] = {'before': str(a[k])[:300], 'after': str(b[k])[:300]}
    return out


class HangDetected(BaseException):
    pass


def _alarm(signum, frame):  # noqa: ARG001
    raise HangDetected


def fresh_target():
    """A new pristine world; identical to the previous one (virtual clock, uuid and port counters restart)."""
    global _TARGET
    old = _TARGET
    _TARGET = None
    T = Target()
    T.corpus = _CORPUS
    global _REBUILD_CHECKED
    T.base = old.base if old is not None else T.fingerprint()
    if not _REBUILD_CHECKED and old is not None:
        from mcx.runner import HarnessError
        if T.fingerprint() != old.base:
            raise HarnessError('C13: a rebuilt world differs from the first one (hidden global state)')
        _REBUILD_CHECKED = True
    _TARGET = T
    return T


def run_isolated(T, cases, on_result):
    """Every case meets the pristine world: the world is rebuilt as soon as a case changed any state (forking a copy per
    case would be the obvious alternative; in this sandbox fork() costs 30-80 ms and serialises across processes).
    A case that does not finish within the watchdog time is a hang."""
    del T
    signal.signal(signal.SIGALRM, _alarm)
    for case in cases:
        T = target()
        signal.setitimer(signal.ITIMER_REAL, WATCHDOG)
        try:
            res = run_case(T, case)
        except HangDetected:
            res = {'problems': [('hangs', f'not finished within {WATCHDOG} s')], 'statuses': (), 'rejected': True,
                   'dirty': True, 'converter': 0, 'reads': 0}
        except Exception:  # noqa: BLE001  harness error: reported, never hidden
            import traceback
            res = {'harness_error': traceback.format_exc()[-1500:], 'dirty': True, 'problems': []}
        finally:
            signal.setitimer(signal.ITIMER_REAL, 0)
        on_result(case, res)
        if res['dirty']:
            fresh_target()


def case_name(case):
    mut = case['mut']
    return f"{case.get('req', '-')}|{'/'.join(str(x) for x in mut)}"


def mut_class(case):
    mut = case['mut']
    kind = mut[0]
    if kind in ('attr-set', 'text'):
        return f'{kind}={_short(HOSTILE[mut[-1]])}'
    if kind == 'header':
        return f'header:{HEADERS[mut[1]]}={_short(HEADER_VALUES[mut[2]])}'
    if kind in ('frame', 'rename', 'method'):
        return f'{kind}:{mut[1] if kind != "rename" else mut[2]}'
    if kind == 'doctype':
        return f'doctype:{mut[1]}'
    if kind == 'encoding':
        return f'encoding:{mut[1]}{"+" + mut[2] if mut[2] else ""}'
    if kind in ('raw', 'wire'):
        return kind
    return kind


def _short(v):
    return v if len(v) < 14 else v[:8] + '...'


def _chunk(acc, cases):
    from mcx.runner import HarnessError
    T = target()

    def on_result(case, res):
        if res.get('harness_error'):
            raise HarnessError(f'C13 harness error in {case_name(case)}: {res["harness_error"]}')
        acc.evals()
        acc.trace()
        acc.transition()
        acc.state(h64(('c13', case_name(case))))
        acc.nontrivial(h64(('c13', case.get('req'), mut_class(case), res['statuses'], res['rejected'], res['converter'],
                            tuple(p[0] for p in res['problems']))))
        acc.outcome(('rejected' if res['rejected'] else 'accepted') + ('' if res['converter'] else '/http-level'))
        acc.add('state-changing-accepted', 1 if (res['dirty'] and not res['rejected']) else 0)
        if len(acc.samples) < 2:
            acc.sample({'request': case_name(case), 'statuses': list(res['statuses']), 'rejected': res['rejected'],
                        'reached_converter': res['converter'], 'problems': [p[0] for p in res['problems']]})
        seen = set()
        for kind, detail in res['problems']:
            key = f'{kind}/{case.get("req", "-")}/{mut_class(case)}'
            if key in seen:
                continue
            seen.add(key)
            acc.violation(key, {'case': case, 'detail': detail, 'statuses': list(res['statuses'])}, case=case)
    run_isolated(T, cases, on_result)


def all_cases(quick):
    T = target()
    corpus = T.corpus
    keys = sorted(corpus)
    cases = []
    for k in keys:
        data = corpus[k]['data']
        cases.append({'req': k, 'mut': ('none',)})
        cases += [{'req': k, 'mut': m} for m in xml_mutations(data)]
        cases += [{'req': k, 'mut': m} for m in doctype_cases(data)]
        cases += [{'req': k, 'mut': m} for m in encoding_cases(data)]
        tr = truncations(data)
        cases += [{'req': k, 'mut': m} for m in (tr[::4] if quick else tr)]
        cases += [{'req': k, 'mut': ('action', o)} for o in keys if o != k]
        cases += [{'req': k, 'mut': ('action-literal', lit)} for lit in ('', 'urn:verif:unknown-action', ' ', 'x' * 5000)]
        paths = sorted({corpus[o]['path'] for o in keys} - {corpus[k]['path']})
        cases += [{'req': k, 'mut': ('path', p)} for p in paths]
        own = corpus[k]['path']
        first = '/' + own.split('/')[1]
        cases += [{'req': k, 'mut': ('path', p)} for p in (
            '/', '//', '/unknown', first + '/Unknown', own + '/extra', own + '/', own + '?x=1', '?x', '*', first, 'http://10.0.0.1:8000' + own,
            own.lstrip('/'), own + '/' + 'y' * 3000, '/%2e%2e/%2e%2e/etc/passwd', first + '//Get', own + '#frag',
            # request targets that urlparse or lxml choke on
            'http://[/x', 'http://[::1' + own, '//[' + own, own + '\x01', own + '/\x7f\x00', own + '\xff', own + '%00', own + '?\x01',
            own + '/<&>', own + ';p=1', own.upper(),
            # percent-encodings that become something else when a component decodes them: non-latin-1 text, CR LF with a header
            # line, NUL, an encoded slash, an encoded path element, overlong / invalid UTF-8
            first + '/%E2%82%AC', first + '/%0D%0AX-Injected:%20yes', first + '/x%0d%0a%0d%0a<html>', first + '/%00', first + '/a%2Fb',
            first + '/' + ''.join('%%%02X' % ord(c) for c in own.split('/')[-1]), first + '/%C0%AF', first + '/%FF%FE',
            '/%E2%82%AC' + own, first + '/%25%30%44', own + '/%E2%82%AC', own + '%0D%0AX-Injected:%20yes')]
    # headers: every header x every hostile value on every request type
    header_reps = [k for k in keys if k.split(':')[-1] in ('GetMdib', 'SetString', 'Subscribe', 'Renew', 'EpisodicMetricReport')]
    for k in (header_reps if quick else keys):
        cases += [{'req': k, 'mut': ('header', hi, vi)} for hi in range(len(HEADERS)) for vi in range(len(HEADER_VALUES))]
    # framing: every variant on three representative requests of the provider and two of the consumer (thorough: all)
    reps = [k for k in keys if k.split(':')[-1] in ('GetMdib', 'SetString', 'Subscribe', 'Renew', 'EpisodicMetricReport', 'SubscriptionEnd')]
    for k in (reps if quick else keys):
        cases += [{'req': k, 'mut': m} for m in framing_cases()]
        cases += [{'req': k, 'mut': ('method', m)} for m in ('GET', 'HEAD', 'PUT', 'DELETE', 'OPTIONS', 'PATCH', 'post', 'BREW')]
    # raw bodies: all sequences of <= 3 tokens (thorough 4) posted to one provider and one consumer path
    maxlen = 3 if quick else 4
    for k in [x for x in keys if x.split(':')[-1] in ('GetMdib', 'EpisodicMetricReport')]:
        for n in range(0, maxlen + 1):
            for seq in itertools.product(range(len(RAW_TOKENS)), repeat=n):
                cases.append({'req': k, 'mut': ('raw', seq)})
    # raw connections: all sequences of <= 4 wire tokens
    for n in range(0, 5 if not quick else 4):
        for seq in itertools.product(range(len(WIRE_TOKENS)), repeat=n):
            cases.append({'mut': ('wire', seq)})
    # GET
    gets = set()
    for k in keys:
        own = corpus[k]['path']
        for suffix in ('', '?wsdl', '/?wsdl', '?x', '/unknown?wsdl'):
            gets.add(own + suffix)
    gets |= {'/', '//', '?wsdl', '/unknown', '*', '/' + 'z' * 70000}
    cases += [{'mut': ('get', g), 'req': keys[0]} for g in sorted(gets)]
    return cases


# ---------------------------------------------------------------------------------------------- deferred consumer sink
class _StopDrain(BaseException):
    pass


def _deferred_chunk(acc, keys):
    """The consumer's default event sink answers at once and hands the notification to a worker thread. Here the real
    worker loop (_read_queue) is run synchronously after every request: a request that is answered but then kills the
    worker (an exception escaping the loop) silently stops all further notification processing and, once the bounded queue
    is full, blocks every later request - so no input may make the loop end."""
    import queue as _q
    T = target()
    w = world.World()
    p = w.mk_provider()
    c = w.mk_consumer(p, deferred=True)
    w.mk_consumer_mdib(c)
    disp = None
    for obj in (getattr(c, '_services_dispatcher', None), getattr(c, '_dispatcher', None)):
        if obj is not None and hasattr(obj, '_read_queue'):
            disp = obj
    if disp is None:
        # the deferred dispatchers are registered per subscription path: collect all of them
        disps = [d for d in _find_deferred(c) if hasattr(d, '_read_queue')]
    else:
        disps = [disp]
    if not disps:
        from mcx.runner import HarnessError
        raise HarnessError('C13 deferred part: no deferred dispatcher found in the consumer')

    class DrainQueue(_q.Queue):
        def get(self, block=True, timeout=None):  # noqa: ARG002
            if self.empty():
                raise _StopDrain
            return super().get(False)

    for d in disps:
        old = d._queue
        d._queue = DrainQueue(old.maxsize)
    base = '/' + c.path_prefix
    for k in keys:
        entry = T.corpus[k]
        own = entry['path']
        others = sorted({T.corpus[o]['path'] for o in T.corpus if o.startswith('consumer') and T.corpus[o]['path'] != own})
        for pth in [own, base, base + '/', base + '/unknown', own + '/extra'] + others:
            acc.add('states')
            acc.transition()
            acc.evals()
            acc.trace()
            tag = 'own' if pth == own else ('base' if pth.rstrip('/') == base else 'other-subscription' if pth in others else 'unknown')
            try:
                status, _reason, _body = c._msg_converter.do_post(world.mk_headers({'Host': '10.0.0.2:9000'}), pth, ('10.0.0.1', 40000),
                                                                   entry['data'])
            except Exception as ex:  # noqa: BLE001
                acc.violation(f'deferred/message-converter-raises/{k}/{tag}', {'path': pth, 'error': repr(ex)[:200]},
                              case={'kind': 'deferred', 'req': k})
                continue
            acc.outcome(f'deferred:{tag}:{status}')
            for d in disps:
                try:
                    d._read_queue()
                    # the loop is meant to run for ever: returning (instead of waiting for the next item) ends the worker
                    acc.violation(f'deferred/notification-worker-ends/{k.split(":")[-1]}/{tag}',
                                  {'request': k, 'path': pth, 'answered_with': status}, case={'kind': 'deferred', 'req': k})
                except _StopDrain:
                    pass
                except Exception as ex:  # noqa: BLE001
                    acc.violation(f'deferred/notification-worker-dies/{type(ex).__name__}/{k.split(":")[-1]}/{tag}',
                                  {'request': k, 'path': pth, 'answered_with': status, 'error': repr(ex)[:200]},
                                  case={'kind': 'deferred', 'req': k})
    w.close()


def _find_deferred(c):
    from sdc11073.consumer.request_handler_deferred import DispatchKeyRegistryDeferred
    seen, out, todo = set(), [], [c]
    while todo and len(seen) < 4000:
        o = todo.pop()
        if id(o) in seen:
            continue
        seen.add(id(o))
        if isinstance(o, DispatchKeyRegistryDeferred):
            out.append(o)
            continue
        for v in (list(vars(o).values()) if hasattr(o, '__dict__') else []):
            if isinstance(v, dict):
                todo.extend(v.values())
            elif isinstance(v, (list, tuple)):
                todo.extend(v)
            elif hasattr(v, '__dict__') and type(v).__module__.startswith('sdc11073'):
                todo.append(v)
    return out


def run(ctx):
    cases = all_cases(ctx.quick)
    T = target()
    ctx.note('request_types', sorted(T.corpus))
    ctx.note('cases', len(cases))
    by_kind = {}
    for c in cases:
        by_kind[c['mut'][0]] = by_kind.get(c['mut'][0], 0) + 1
    ctx.note('cases_by_kind', by_kind)
    cases = ctx.rotate(cases)
    size = 150
    chunks = [cases[i:i + size] for i in range(0, len(cases), size)]
    ctx.pmap(_chunk, chunks, chunksize=1)
    ckeys = sorted(k for k in T.corpus if k.startswith('consumer'))
    ctx.pmap(_deferred_chunk, [ckeys[i::4] for i in range(4)], chunksize=1)
    ctx.note('bounds', 'every single mutation (delete, duplicate, rename x3, swap, unexpected child, attribute delete/rename/%d values, '
                       'text x %d values) of every element of every request type; every other action and path; %d DOCTYPE/entity variants at '
                       'every text position; truncation after every tag (quick: every 4th); %d framing variants; %d headers x %d values (quick: on 7 request types); raw bodies of <= %d tokens; '
                       'raw connections of <= %d tokens' % (len(HOSTILE), len(HOSTILE), len(DOCTYPES), len(framing_cases()), len(HEADERS), len(HEADER_VALUES),
                                                           3 if ctx.quick else 4, 3 if ctx.quick else 4))


def replay(ctx, case):
    if case.get('kind') == 'deferred':
        _deferred_chunk(ctx, [case['req']])
        return {'violations': sorted(ctx.violations)[:10]}
    T = target()
    case = dict(case)
    case['mut'] = tuple(tuple(x) if isinstance(x, list) else x for x in case['mut'])
    got = []
    run_isolated(T, [case], lambda c, res: got.append(res))
    res = got[0] if got else {'problems': [('no-result', '')]}
    for kind, detail in res['problems']:
        ctx.violation(f'{kind}/{case.get("req", "-")}/{mut_class(case)}', detail)
    return {'statuses': list(res.get('statuses', ())), 'problems': [p[0] for p in res['problems']],
            'request': materialise(T.corpus, case)[:600].decode('latin-1')}
