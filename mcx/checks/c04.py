"""C04 - reports are complete, truthful, schema-valid and ordered."""
from __future__ import annotations

from lxml import etree

from mcx import alphabet as A
from mcx import canon, hist, mdibwalk, schema, world
from mcx.runner import h64

PROPERTY = 'C04'
TECHNIQUE = ('explicit-state exploration of transaction histories with a recording subscriber (every wire message re-parsed '
             'with plain lxml, validated against a harness-built XSD validator, compared with the committed snapshot diff); '
             'preemption-bounded schedule exploration of concurrent writers for report ordering')

MSG = 'http://standards.ieee.org/downloads/11073/11073-10207-2017/message'
PM = 'http://standards.ieee.org/downloads/11073/11073-10207-2017/participant'
S12 = 'http://www.w3.org/2003/05/soap-envelope'
STATE_REPORTS = {
    'EpisodicMetricReport': 'metric', 'EpisodicAlertReport': 'alert', 'EpisodicComponentReport': 'component',
    'EpisodicOperationalStateReport': 'operational', 'EpisodicContextReport': 'context', 'WaveformStream': 'rt',
}
PERIODIC = {'PeriodicMetricReport': 'metric', 'PeriodicAlertReport': 'alert', 'PeriodicComponentReport': 'component',
            'PeriodicOperationalStateReport': 'operational', 'PeriodicContextReport': 'context'}


def category_of(state):
    if getattr(state, 'is_realtime_sample_array_metric_state', False):
        return 'rt'
    for flag, cat in (('is_metric_state', 'metric'), ('is_alert_state', 'alert'), ('is_component_state', 'component'),
                      ('is_operational_state', 'operational'), ('is_context_state', 'context')):
        if getattr(state, flag, False):
            return cat
    return '?'


def mds_of(snap, handle):
    """Walk parents in a snapshot to the MDS ancestor of a descriptor handle."""
    descr = snap['descriptors']
    cur = handle
    for _ in range(50):
        c = descr.get(('d', cur))
        if c is None:
            return None
        parent = dict((k, v) for k, v in c[0][2:] if isinstance(k, str)).get('parent') if False else None
        # head = (cls, nodetype, ('parent', h))
        parent = None
        for el in c[0]:
            if isinstance(el, tuple) and el and el[0] == 'parent':
                parent = el[1]
        if parent is None:
            return cur
        cur = parent
    return None


def parse_body(data):
    doc = etree.fromstring(data, parser=etree.XMLParser(resolve_entities=False))
    body = doc.find(f'{{{S12}}}Body')
    if body is None or len(body) == 0:
        return None
    return body[0]


def _q(ns, name):
    return f'{{{ns}}}{name}'


class Reported:
    def __init__(self):
        self.states = []        # (report, category, source_mds, key, version, node)
        self.descriptors = []   # (modtype, source_mds, parent, key, version, node, [state nodes])
        self.groups = []        # (report, MdibVersion, SequenceId, InstanceId)


def collect(rec_wire, consumer_netloc):
    rep = Reported()
    problems = []
    for msg in rec_wire:
        if msg.netloc != consumer_netloc:
            continue
        err = schema.validate_bytes(msg.data)
        if err:
            problems.append(('schema-invalid-message', err[:200]))
        root = parse_body(msg.data)
        if root is None:
            continue
        name = etree.QName(root).localname
        if name in STATE_REPORTS or name == 'DescriptionModificationReport' or name in PERIODIC:
            inst = root.get('InstanceId')
            rep.groups.append((name, int(root.get('MdibVersion', '0')), root.get('SequenceId'),
                               None if inst is None else int(inst)))
        if name in STATE_REPORTS:
            cat = STATE_REPORTS[name]
            if name == 'WaveformStream':
                for st in root.findall(_q(MSG, 'State')):
                    rep.states.append((name, cat, None, ('s', st.get('DescriptorHandle')), int(st.get('StateVersion', '0')), st))
                continue
            for part in root.findall(_q(MSG, 'ReportPart')):
                src = part.findtext(_q(MSG, 'SourceMds'))
                for st in part:
                    ln = etree.QName(st).localname
                    if ln == 'SourceMds':
                        continue
                    key = ('c', st.get('Handle')) if cat == 'context' else ('s', st.get('DescriptorHandle'))
                    rep.states.append((name, cat, src, key, int(st.get('StateVersion', '0')), st))
        elif name == 'DescriptionModificationReport':
            for part in root.findall(_q(MSG, 'ReportPart')):
                src = part.findtext(_q(MSG, 'SourceMds'))
                mod = part.get('ModificationType', 'Upt')
                parent = part.get('ParentDescriptor')
                st_nodes = part.findall(_q(MSG, 'State'))
                for d in part.findall(_q(MSG, 'Descriptor')):
                    rep.descriptors.append((mod, src, parent, ('d', d.get('Handle')), int(d.get('DescriptorVersion', '0')),
                                            d, st_nodes))
    return rep, problems


def _dh(obj):
    try:
        return dict(obj[1]).get('DescriptorHandle')
    except Exception:  # noqa: BLE001
        return None


def check_step(rec, walk):
    """Return None or (kind, signature, detail)."""
    if rec.result == 'raised':
        return ('provider-raised', type(rec.error).__name__, repr(rec.error)[:300])
    if rec.result == 'disabled':
        return None
    p = walk.provider
    consumer_netloc = f'{walk.consumer.verif_owner.ip}:9000'
    rep, problems = collect(rec.wire, consumer_netloc)
    if problems:
        return (problems[0][0], problems[0][1][:80], problems[:3])
    before, after = rec.before, rec.after
    created, updated, deleted = mdibwalk.changed_keys(before, after)
    group = (after['mdib_version'], after['sequence_id'], after['instance_id'])
    for name, v, seq, inst in rep.groups:
        if (v, seq, inst) != group:
            return ('report-version-group-differs-from-commit', name, {'report': [v, seq, inst], 'committed': list(group)})
    if (created or updated or deleted) and not rep.groups:
        return ('no-report-for-committed-change', 'none', {'changed': sorted(map(str, created | updated | deleted))[:6]})
    reader = p.msg_reader
    a_content = canon.content(after)
    b_content = canon.content(before)
    # ---- states
    expected_states = {k for k in (created | updated) if k[0] in ('s', 'c')}
    seen = {}
    for name, cat, src, key, version, node in rep.states:
        if key in seen:
            return ('state-reported-twice', name, {'key': key, 'reports': [seen[key], name]})
        seen[key] = name
        if key not in expected_states:
            return ('unchanged-state-reported', name, {'key': key, 'version': version})
        obj = _table_obj(p.mdib, key)
        if obj is not None and category_of(obj) != cat:
            return ('state-in-wrong-report', name, {'key': key, 'category': category_of(obj)})
        forced = p.mdib.data_model.pm_names.RealTimeSampleArrayMetricState if name == 'WaveformStream' else None
        parsed = reader._mk_state_container_from_node(node, forced)
        c = canon.canon_obj(parsed)
        if c != a_content.get(key):
            return ('reported-state-differs-from-commit', name,
                    {'key': key, 'diff': canon._item_diff(a_content.get(key) or c, c)})
        if name != 'WaveformStream':
            want = mds_of(after, parsed.DescriptorHandle)
            if src != want:
                return ('wrong-source-mds', name, {'key': key, 'SourceMds': src, 'expected': want})
    missing = sorted(k for k in expected_states if k not in seen)
    if missing:
        return ('changed-state-not-reported', ','.join(sorted({k[0] for k in missing})), {'missing': missing[:6]})
    # ---- descriptors
    exp = {'Crt': {k for k in created if k[0] == 'd'}, 'Upt': {k for k in updated if k[0] == 'd'},
           'Del': {k for k in deleted if k[0] == 'd'}}
    got = {'Crt': [], 'Upt': [], 'Del': []}
    for mod, src, parent, key, version, node, st_nodes in rep.descriptors:
        if mod not in got:
            return ('unknown-modification-type', str(mod), {})
        got[mod].append(key)
        ref_snap = before if mod == 'Del' else after
        ref = (b_content if mod == 'Del' else a_content).get(key)
        if ref is None or key not in exp[mod]:
            return ('unchanged-descriptor-reported', mod, {'key': key, 'version': version})
        parsed = reader._mk_descriptor_container_from_node(node, parent)
        c = canon.canon_obj(parsed)
        if c != ref:
            return ('reported-descriptor-differs-from-commit', mod, {'key': key, 'diff': canon._item_diff(ref, c)})
        want = mds_of(ref_snap, key[1])
        if src != want:
            return ('wrong-source-mds', 'DescriptionModificationReport', {'key': key, 'SourceMds': src, 'expected': want})
        if mod != 'Del':
            # the part carries exactly the states of the descriptor as committed (all context states of a context
            # descriptor: a consumer drops the context states that an update part does not list)
            mine = [sn for sn in st_nodes if sn.get('DescriptorHandle') == key[1]]
            got_states = sorted(('c', sn.get('Handle')) if sn.get('Handle') else ('s', sn.get('DescriptorHandle')) for sn in mine)
            want_states = sorted(k for k, obj in a_content.items() if k[0] in ('s', 'c') and _dh(obj) == key[1])
            if got_states != want_states:
                return ('descriptor-part-states-differ-from-commit', mod, {'descriptor': key[1], 'in_report': got_states,
                                                                           'committed': want_states})
        for sn in st_nodes:
            skey = ('c', sn.get('Handle')) if sn.get('Handle') else ('s', sn.get('DescriptorHandle'))
            if mod != 'Del':
                sc = canon.canon_obj(reader._mk_state_container_from_node(sn))
                if sc != a_content.get(skey):
                    return ('reported-state-differs-from-commit', 'DescriptionModificationReport',
                            {'key': skey, 'diff': canon._item_diff(a_content.get(skey) or sc, sc)})
    for mod in got:
        if len(set(got[mod])) != len(got[mod]):
            dup = sorted(k for k in set(got[mod]) if got[mod].count(k) > 1)
            return ('descriptor-reported-twice', mod, {'keys': dup})
        if set(got[mod]) != exp[mod]:
            return ('descriptor-report-incomplete', mod, {'missing': sorted(exp[mod] - set(got[mod]))[:5],
                                                          'extra': sorted(set(got[mod]) - exp[mod])[:5]})
    return None


def _table_obj(mdib, key):
    if key[0] == 's':
        return mdib.states.descriptor_handle.get_one(key[1], allow_none=True)
    if key[0] == 'c':
        return mdib.context_states.handle.get_one(key[1], allow_none=True)
    return mdib.descriptions.handle.get_one(key[1], allow_none=True)


# ------------------------------------------------------------------ periodic store / periodic reports
def check_periodic(walk, history_snaps):
    """The state copies retained for periodic reports still show the values of the version they are labelled with."""
    handler = walk.provider._periodic_reports_handler
    stores = {'metric': '_periodic_metric_reports', 'alert': '_periodic_alert_reports',
              'component': '_periodic_component_state_reports', 'context': '_periodic_context_state_reports',
              'operational': '_periodic_operational_state_reports'}
    for cat, attr in stores.items():
        for entry in getattr(handler, attr, []):
            snap = history_snaps.get(entry.mdib_version)
            if snap is None:
                return ('periodic-store-unknown-version', cat, {'mdib_version': entry.mdib_version})
            content = canon.content(snap)
            for st in entry.states:
                key = canon.key_of(st)
                c = canon.canon_obj(st)
                if c != content.get(key):
                    return ('periodic-store-differs-from-labelled-version', cat,
                            {'key': key, 'labelled_mdib_version': entry.mdib_version,
                             'diff': canon._item_diff(content.get(key) or c, c)})
    return None


def run_hist(job, acc=None):
    cfg, h = job
    walk = mdibwalk.Walk(mdib_path=world.MDIB_TWO_MDS if cfg['two_mds'] else world.MDIB_TNS, async_mgr=cfg['async'],
                         provider_kwargs={'periodic_reports_interval': 1.0} if cfg.get('periodic') else None)
    try:
        return _run_hist(walk, cfg, h, acc)
    finally:
        walk.world.close()


def _run_hist(walk, cfg, h, acc):
    snaps = {}
    for i, name in enumerate(h):
        rec = walk.step(name)
        snaps[rec.after['mdib_version']] = rec.after
        if acc is not None:
            acc.transition()
            acc.outcome('event-' + rec.result)
            k = h64(mdibwalk.state_key(rec.after))
            if acc.state(k):
                acc.nontrivial(k)
            acc.add('wire-messages-checked', len(rec.wire))
        bad = check_step(rec, walk)
        if bad is None and cfg.get('periodic'):
            bad = check_periodic(walk, snaps)
        if bad is not None:
            return (i,) + bad
    if cfg.get('periodic'):
        bad = _periodic_pass(walk, snaps, acc)
        if bad is not None:
            return (len(h) - 1,) + bad
    return None


# ------------------------------------------------------------------ slow subscriber (async managers)
STALLS = (0.5, 4.0, 6.0, 8.0, 30.0, 61.0)


def run_stall(job, acc=None):
    """A subscriber whose connection takes `delay` virtual seconds for the k-th delivery: reports still arrive in
    MdibVersion order, none is lost, each arrives once."""
    mode, history, k, delay = job
    walk = mdibwalk.Walk(async_mgr=True)
    consumer_netloc = f'{walk.consumer.verif_owner.ip}:9000'
    count = {'n': 0}

    def delay_hook(client, path):  # noqa: ARG001
        if client.netloc != consumer_netloc:
            return 0
        count['n'] += 1
        return delay if count['n'] == k + 1 else 0
    walk.world.wire.delay_hook = delay_hook
    n0 = len(walk.world.wire.log)
    committed = []
    for name in history:
        before = walk.provider.mdib.mdib_version
        try:
            A.apply(walk.provider, name)
        except Exception as ex:  # noqa: BLE001
            return ('provider-raised', type(ex).__name__, repr(ex)[:300])
        if walk.provider.mdib.mdib_version != before:
            committed.append(walk.provider.mdib.mdib_version)
        if acc is not None:
            acc.transition()
    # let deliveries that are still pending finish (they would, given time)
    loop_thread = getattr(walk.provider._soap_client_pool, 'async_loop_subscr_mgr', None)
    if loop_thread is not None and hasattr(loop_thread.loop, 'run_virtual'):
        loop_thread.loop.run_virtual(None, None)
    arrived = []
    for msg in walk.world.wire.log[n0:]:
        if msg.netloc != consumer_netloc:
            continue
        root = parse_body(msg.data)
        if root is None or root.get('MdibVersion') is None:
            continue
        arrived.append(int(root.get('MdibVersion')))
    if arrived != sorted(arrived):
        return ('reports-overtake-each-other', f'delay={delay}', {'arrival_order': arrived, 'stalled_delivery': k})
    missing = [v for v in committed if v not in arrived]
    # a delivery that takes longer than the provider's notification timeout is a failed delivery: the subscription is ended
    # (C08), later versions are then not sent any more - completeness is required only for stalls below the timeout
    timeout = getattr(walk.provider, '_socket_timeout', None) or 0
    if missing and delay < timeout:
        return ('committed-version-never-delivered', f'delay={delay}', {'missing': missing, 'arrived': arrived,
                                                                         'notification_timeout': timeout})
    return None


def _stall_work(acc, job):
    acc.trace()
    acc.evals()
    res = run_stall(job, acc)
    acc.state(h64(('stall', repr(job))))
    if res is None:
        acc.nontrivial(h64(('stall-ok', repr(job))))
        return
    kind, sig, detail = res
    acc.violation(f'slow-subscriber/{kind}/{sig}/{">".join(job[1])}/stalled={job[2]}', detail,
                  case={'kind': 'stall', 'job': [job[0], list(job[1]), job[2], job[3]]})


def stall_jobs(quick):
    hs = [['metric(N1,1)', 'metric(N1,2)'], ['metric(N1,1)', 'alert-cond(on)', 'metric(N1,2)'], ['location(1)', 'metric(N1,1)'],
          ['update-descr+state(N1)', 'metric(N1,1)', 'component(vmd0,on)']]
    if not quick:
        hs += [list(h) for h in hist.sequences(A.CORE[:6], 3)[:60]]
    jobs = []
    for h in hs:
        for k in range(min(len(h), 2 if quick else 3)):
            for d in (STALLS[1:4] if quick else STALLS):
                jobs.append(('stall', h, k, d))
    return jobs


def _periodic_pass(walk, snaps, acc=None):
    """Run one pass of the real periodic send loop body and check the Periodic*Report messages on the wire."""
    handler = walk.provider._periodic_reports_handler
    n0 = len(walk.world.wire.log)
    handler._run_periodic_reports_thread = True

    calls = []

    def one_pass(seconds):  # start delay, then the interval wait: the loop body runs exactly once
        calls.append(seconds)
        world.ENV.now += max(0.0, float(seconds))
        if len(calls) >= 2:
            handler._run_periodic_reports_thread = False
    world.ENV.sleep_hook = one_pass
    try:
        handler._simple_periodic_reports_send_loop()
    finally:
        world.ENV.sleep_hook = None
    consumer_netloc = f'{walk.consumer.verif_owner.ip}:9000'
    seen_periodic = False
    stored_before = any(getattr(handler, a) for a in vars(handler) if a.startswith('_periodic_') and a.endswith('reports'))
    for msg in walk.world.wire.log[n0:]:
        if msg.netloc != consumer_netloc:
            continue
        err = schema.validate_bytes(msg.data)
        if err:
            return ('schema-invalid-message', err[:80], err[:300])
        root = parse_body(msg.data)
        name = etree.QName(root).localname
        if name not in PERIODIC:
            continue
        seen_periodic = True
        for part in root.findall(_q(MSG, 'ReportPart')):
            for st in part:
                if etree.QName(st).localname == 'SourceMds':
                    continue
                parsed = walk.provider.msg_reader._mk_state_container_from_node(st)
                key = canon.key_of(parsed)
                c = canon.canon_obj(parsed)
                # the state must be a value that was really committed at some version with this StateVersion
                ok = any(canon.content(s).get(key) == c for s in snaps.values())
                if not ok:
                    return ('periodic-report-state-never-committed', name, {'key': key})
    if acc is not None:
        acc.outcome('periodic-pass:reports-sent' if seen_periodic else 'periodic-pass:nothing-sent')
    return None


def _work(acc, job):
    acc.trace()
    acc.evals()
    res = run_hist(job, acc)
    cfg, h = job
    if res is not None:
        step, kind, sig, detail = res
        small = hist.minimise(lambda c: run_hist((cfg, c)), h, step, kind, sig)
        tag = ('two-mds,' if cfg['two_mds'] else '') + ('async,' if cfg['async'] else '') + ('periodic,' if cfg.get('periodic') else '')
        acc.add(f'bad:{kind}')
        acc.violation(f'{kind}/{sig}/{tag}{">".join(small)}', {'history': small, 'config': cfg, 'detail': detail},
                      case={'kind': 'history', 'config': cfg, 'history': small})
    if len(acc.samples) < 2:
        acc.sample({'config': cfg, 'history': h})


def history_jobs(ctx):
    names = [n for n, _ in A.EVENTS]
    two = [n for n, _ in A.TWO_MDS_EVENTS]
    reuse = [n for n, _ in A.REUSE_EVENTS]
    full = ['create-reused-channel(mds0)', 'create-reused-metric', 'delete(reused-channel)', 'create-reused-channel(mds1)',
            'create-reused-metric', 'metric(reused,1)']
    reuse_hist = [full, [full[3], full[1], full[2], full[0], full[1], full[5]], full[:2] + full[5:], full[3:]]
    reuse_hist += [list(h) for h in hist.sequences(reuse, 3) if h[0].startswith('create-reused-channel')]
    base = {'two_mds': False, 'async': False}
    jobs = []
    if ctx.quick:
        jobs += [(base, h) for h in hist.sequences(names, 1)]
        jobs += [(base, h) for h in hist.sequences(A.CORE, 2)]
        jobs += [({'two_mds': True, 'async': False}, h) for h in hist.sequences(two + A.CORE[:6], 2)]
        jobs += [({'two_mds': True, 'async': False}, h) for h in reuse_hist]
        jobs += [({'two_mds': False, 'async': True}, h) for h in hist.sequences(A.CORE, 1)]
        jobs += [({'two_mds': False, 'async': False, 'periodic': True}, h) for h in hist.sequences(A.CORE[:9], 2)]
        jobs += [({'two_mds': False, 'async': False, 'periodic': True}, h) for h in
                 hist.sequences(['inplace-lists(N1,a)', 'inplace-lists(N1,b)', 'metric(N1,1)'], 3)]
        jobs += [(base, ['patient-new(A)', 'patient-new(B)', e]) for e in names if e.startswith(('update-context', 'patient-entity', 'delete'))]
    else:
        jobs += [(base, h) for h in hist.sequences(names, 2)]
        jobs += [({'two_mds': True, 'async': False}, h) for h in hist.sequences(two + A.CORE, 2)]
        jobs += [({'two_mds': True, 'async': False}, h) for h in reuse_hist]
        jobs += [({'two_mds': True, 'async': True}, h) for h in hist.sequences(two + A.CORE[:6], 2)]
        jobs += [({'two_mds': False, 'async': True}, h) for h in hist.sequences(A.CORE, 2)]
        jobs += [({'two_mds': False, 'async': False, 'periodic': True}, h) for h in hist.sequences(A.CORE, 2)]
        jobs += [({'two_mds': False, 'async': False, 'periodic': True}, h) for h in hist.sequences(A.CORE[:6], 3)]
        jobs += [({'two_mds': False, 'async': False, 'periodic': True}, h) for h in
                 hist.sequences(['inplace-lists(N1,a)', 'inplace-lists(N1,b)', 'metric(N1,1)', 'metric(N1,2)'], 4)]
        jobs += [(base, ['patient-new(A)', 'patient-new(B)', 'patient-entity-new(C)', e]) for e in names]
    return jobs


def run(ctx):
    ctx.rule = ('(a) transaction histories (single/two-MDS MDIB, sync/async subscription manager) with a recording subscriber: '
                'every wire message validated with a harness-built XMLSchema and re-parsed with lxml; version group, multiset of '
                'reported (handle, version), canonical content, report category, modification type and SourceMds compared with the '
                'committed snapshot diff; (c) periodic store contents compared with the snapshot of the version they are labelled '
                'with, one real periodic-loop pass checked on the wire; (b) concurrent writers under the schedule explorer. '
                'distinct_nontrivial = distinct provider snapshots reached')
    jobs = history_jobs(ctx)
    ctx.note('histories', len(jobs))
    ctx.pmap(_work, ctx.rotate(jobs))
    sj = stall_jobs(ctx.quick)
    ctx.note('slow_subscriber_cases', len(sj))
    ctx.pmap(_stall_work, ctx.rotate(sj), chunksize=2)
    try:
        from mcx.checks import c04_sched
    except ImportError:
        c04_sched = None
    if c04_sched is not None:
        c04_sched.run(ctx)
    ctx.assumptions.append('one subscriber subscribed to all actions over the loop-back transport; report content is compared '
                           'after parsing with the library reader, versions/handles/MDS grouping with plain lxml')


def replay(ctx, case):
    if case.get('kind') == 'history':
        res = run_hist((case['config'], case['history']))
        if res is not None:
            ctx.violation(f'{res[1]}/{res[2]}/{">".join(case["history"])}', res[3])
        return {'result': None if res is None else list(res[:3])}
    if case.get('kind') == 'stall':
        j = case['job']
        res = run_stall((j[0], list(j[1]), j[2], j[3]))
        if res is not None:
            ctx.violation(f'slow-subscriber/{res[0]}/{res[1]}', res[2])
        return {'result': None if res is None else [res[0], res[1]]}
    from mcx.checks import c04_sched
    return c04_sched.replay(ctx, case)
