"""C19 - With TLS configured no endpoint is advertised or contacted in plaintext.

Engine I: exhaustive product of TLS configurations x life-cycle scripts x injected connect failures over the real
provider and consumer in the loop-back world; the HTTP server class of the library (HttpServerThreadBase) runs its real
`run()` over a socket-less stand-in, so the scheme of its base url comes from library code.

Oracle on every execution:
 * provider configured with TLS: every URL naming a provider host in ANY message on the wire, in the WS-Discovery
   publication, in get_xaddrs() and base_urls is https; every soap client the provider constructs carries the container's
   client context; the own http server got the container's server context and wrapped its socket with it.
 * consumer with TLS enforced: the same for consumer hosts (NotifyTo / EndTo / own server), every soap client it ever
   constructs carries the client context, no message of the consumer travels without TLS - also after a connect that
   failed with an SSLError (no fallback).
 * compatible configurations must really work (subscriptions established, notification received, operation finished) -
   this keeps the exploration from being vacuous.
 * certloader: for every way to build contexts from a CA file, real in-memory TLS handshakes against every kind of peer
   (certificate of the CA, certificate of another CA, no certificate) succeed exactly for the peer with a certificate of
   the CA, in both directions.
"""
from __future__ import annotations

import itertools
import re
import ssl
from decimal import Decimal
from pathlib import Path

from mcx import alphabet as A
from mcx import world
from mcx.runner import h64

PROPERTY = 'C19'
TECHNIQUE = ('bounded-exhaustive enumeration of TLS configurations (provider tls x consumer none/optional/enforced x '
             'own/shared http servers x alternative host names x sync/async subscription manager) x life-cycle scripts '
             'x every position of an injected TLS connect failure, on the real provider/consumer over a loop-back wire; '
             'plus real in-memory TLS handshakes for every certloader variant against every kind of peer')

FIX = Path(__file__).resolve().parents[2] / 'fixtures' / 'certs'
P_IP, C_IP = '10.0.0.1', '10.0.0.2'
P_ALT, C_ALT = 'provider.example', 'consumer.example'
URL_RE = re.compile(rb'([Hh][Tt][Tt][Pp][Ss]?)://([A-Za-z0-9_.\-]+)(?::(\d+))?')


class RecContext(ssl.SSLContext):
    """A real SSLContext that records the sockets it is asked to wrap (the loop-back world has no sockets)."""

    def __new__(cls, protocol, label):
        self = super().__new__(cls, protocol)
        self.label = label
        self.wrapped = []
        return self

    def __init__(self, protocol, label):  # noqa: ARG002
        pass

    def wrap_socket(self, sock, **kwargs):
        self.wrapped.append((sock, kwargs.get('server_side', False)))
        return sock


def mk_container(name):
    from sdc11073.certloader import SSLContextContainer
    return SSLContextContainer(client_context=RecContext(ssl.PROTOCOL_TLS_CLIENT, f'{name}.client'),
                               server_context=RecContext(ssl.PROTOCOL_TLS_SERVER, f'{name}.server'))


# ------------------------------------------------------------------------------------------------
class _FakeSocket:
    pass


_PORTS = itertools.count(20000)


def _mk_fake_httpd_class(created):
    from sdc11073.dispatch import PathElementRegistry

    class FakeHttpd:
        def __init__(self, logger, server_address, chunk_size, supported_encodings):
            self.logger = logger
            self.server_address = (server_address[0], next(_PORTS))
            self.dispatcher = PathElementRegistry()
            self.chunk_size, self.supported_encodings = chunk_size, supported_encodings
            self.socket = _FakeSocket()
            self.threads = []
            created.append(self)

        @property
        def server_port(self):
            return self.server_address[1]

        def serve_forever(self):
            pass

        def shutdown(self):
            pass

        def server_close(self):
            self.dispatcher = None
    return FakeHttpd


class WireAdapter:
    """Registers a (real, socket-less) HttpServerThreadBase on the loop-back wire."""

    def __init__(self, wire, server, names):
        self.server = server
        self.scheme = server.base_url.split(':')[0]
        for n in names:
            wire.servers[f'{n}:{server.server_port}'] = self

    def _comp(self, path):
        els = path.split('?')[0].split('/')
        first = els[0] if els[0] else (els[1] if len(els) > 1 else '')
        disp = self.server.httpd.dispatcher
        if disp is None:
            raise ConnectionRefusedError('server closed')
        return disp.get_instance(first)

    def handle_post(self, path, data, headers, peer):
        from sdc11073.exceptions import InvalidPathError
        try:
            comp = self._comp(path)
        except InvalidPathError as ex:
            return ex.status, ex.reason, b''
        return comp.do_post(headers, path, peer, data)

    def handle_get(self, path, headers, peer):
        return self._comp(path).do_get(headers, path, peer)


class Sim:
    def __init__(self, cfg):
        from sdc11073.httpserver import httpserverimpl
        import sdc11073.consumer.consumerimpl as cimpl
        import sdc11073.provider.providerimpl as pimpl
        self.cfg = cfg
        self.w = world.World()
        self.wire = self.w.wire
        self.httpds = []
        self.servers = []   # (owner-name, server instance, how)
        self.p_cont = mk_container('provider') if cfg['p_tls'] else None
        self.c_cont = mk_container('consumer') if cfg['c_mode'] != 'none' else None
        self.problems = []
        self.pimpl, self.cimpl, self.httpserverimpl = pimpl, cimpl, httpserverimpl
        sim = self

        class LoopServer(httpserverimpl.HttpServerThreadBase):
            def start(self):
                self.run()     # the real run(): creates the (fake) httpd, wraps the socket, sets base_url
                names = [self._my_ipaddress] + ([P_ALT] if self._my_ipaddress == P_IP else [C_ALT])
                WireAdapter(sim.wire, self, names)

        self.LoopServer = LoopServer
        self._saved = (httpserverimpl._ThreadingHTTPServer, pimpl.HttpServerThreadBase, cimpl.HttpServerThreadBase,
                       pimpl.socket)
        httpserverimpl._ThreadingHTTPServer = _mk_fake_httpd_class(self.httpds)

        def rec_server_class(owner_name):
            def factory(*a, **k):
                srv = LoopServer(*a, **k)
                sim.servers.append((owner_name, srv, 'own'))
                return srv
            return factory
        pimpl.HttpServerThreadBase = rec_server_class('provider')
        cimpl.HttpServerThreadBase = rec_server_class('consumer')

        class _Sock:
            @staticmethod
            def gethostbyname(name):
                return {P_ALT: P_IP, C_ALT: C_IP}.get(name, name)
        pimpl.socket = _Sock
        self.connects = []     # (owner, tls, outcome)
        self.fail_at = cfg.get('fail_at')
        self.wire.connect_hook = self._on_connect
        self.wire.intercept = self._on_post
        self.posts = {'provider': 0, 'consumer': 0}
        self.echo_problems = []
        self.echo_count = 0
        self.c_shared_server = None
        self.p = self.c = None
        self.stage = 'init'

    def restore(self):
        self.httpserverimpl._ThreadingHTTPServer, self.pimpl.HttpServerThreadBase, self.cimpl.HttpServerThreadBase, \
            self.pimpl.socket = self._saved
        self.w.close()

    # -- the TLS behaviour of the transport: a TLS client cannot talk to a plaintext server and vice versa
    def _on_connect(self, client):
        server = self.wire.servers.get(client.netloc)
        tls = client.ssl_context is not None
        idx = len(self.connects)
        who = client.owner.name
        if self.fail_at is not None and tuple(self.fail_at) == (who, sum(1 for c in self.connects if c[0] == who), 'connect'):
            self.connects.append((who, tls, 'injected-sslerror'))
            if tls:
                raise ssl.SSLError(1, '[SSL] injected handshake failure')
            raise ConnectionResetError('injected connect failure')
        if server is None:
            self.connects.append((who, tls, 'refused'))
            raise ConnectionRefusedError(client.netloc)
        if tls and server.scheme != 'https':
            self.connects.append((who, tls, 'tls-to-plain'))
            raise ssl.SSLError(1, '[SSL: WRONG_VERSION_NUMBER] wrong version number')
        if not tls and server.scheme == 'https':
            self.connects.append((who, tls, 'plain-to-tls'))
            raise ConnectionResetError('plaintext to a TLS port')
        self.connects.append((who, tls, 'ok'))
        del idx

    def _on_post(self, client, path, data, msg):  # noqa: ARG002
        who = client.owner.name
        k = self.posts[who]
        self.posts[who] += 1
        if self.fail_at is not None and tuple(self.fail_at) == (who, k, 'post'):
            return ('raise', ConnectionResetError('injected: connection dropped'))
        return None

    # -- construction
    def _shared_server(self, ip, cont, owner_name):
        srv = self.LoopServer(ip, cont.server_context if cont else None, [], world_logger())
        srv.start()
        self.servers.append((owner_name, srv, 'shared'))
        return srv

    def build_provider(self):
        cfg = self.cfg
        from sdc11073.mdib import ProviderMdib
        from sdc11073.provider import SdcProvider
        from sdc11073.provider.providerimpl import provider_components_async_factory, provider_components_sync_factory
        from sdc11073.xml_types.dpws_types import ThisDeviceType, ThisModelType
        from tutorial.productandroles.exampleproduct import EXAMPLE_ROLE_PROVIDER_COMPONENTS
        owner = world.Owner('provider', P_IP)
        mdib = ProviderMdib.from_mdib_file(str(world.MDIB_TNS))
        comps = provider_components_async_factory() if cfg['async'] else provider_components_sync_factory()
        comps.soap_client_class = world.mk_loop_client_class(self.wire, owner)
        model = ThisModelType(manufacturer='Verif', manufacturer_url='www.example.com', model_name='Loop',
                              model_number='1.0', model_url='www.example.com/m', presentation_url='www.example.com/p')
        device = ThisDeviceType(friendly_name='Loop Device', firmware_version='0.1', serial_number='1')
        self.wsd = world.FakeWsDiscovery(P_IP)
        p = SdcProvider(self.wsd, model, device, mdib, epr=world._uuid4(), validate=True,
                        ssl_context_container=self.p_cont, components=comps,
                        role_provider_components=EXAMPLE_ROLE_PROVIDER_COMPONENTS,
                        alternative_hostname=P_ALT if cfg['p_alt'] else None, max_subscription_duration=15)
        self.w.providers.append(p)
        shared = self._shared_server(P_IP, self.p_cont, 'provider') if cfg['p_shared'] else None
        p.start_all(start_rtsample_loop=False, shared_http_server=shared)
        self.p = p
        return p

    def build_consumer(self):
        cfg = self.cfg
        from sdc11073.consumer.consumerimpl import SdcConsumer, default_components_factory
        from sdc11073.consumer.subscription import ConsumerSubscriptionManager
        from sdc11073.definitions_sdc import SdcV1Definitions
        from sdc11073.dispatch import RequestDispatcher
        owner = world.Owner('consumer', C_IP)

        class QuietSubscriptionManager(ConsumerSubscriptionManager):
            def start(self):
                self._run = True

            def join(self, timeout=None):
                pass

        comps = default_components_factory()
        comps.soap_client_class = world.mk_loop_client_class(self.wire, owner)
        comps.subscription_manager_class = QuietSubscriptionManager
        comps.action_dispatcher_class = RequestDispatcher
        c = SdcConsumer(self.p.get_xaddrs()[0], SdcV1Definitions, self.c_cont, validate=True, components=comps,
                        force_ssl_connect=cfg['c_mode'] == 'enforced', epr=world._uuid4(),
                        alternative_hostname=C_ALT if cfg['c_alt'] else None)
        self.c = c
        self.w.consumers.append(c)
        shared = None
        if cfg['c_shared']:
            # what an application that enforces TLS does: its own server uses the server context
            cont = self.c_cont if (cfg['c_mode'] == 'enforced' or (cfg['c_mode'] == 'optional' and cfg['p_tls'])) else None
            shared = self._shared_server(C_IP, cont, 'consumer')
        self.c_shared_server = shared
        c.start_all(shared_http_server=shared, fixed_renew_interval=10 ** 6)
        return c

    # -- the script
    def _stage(self, out, name, fn):
        self.stage = name
        try:
            fn()
        except Exception as ex:  # noqa: BLE001  judged below: failing is legal for incompatible settings and after faults
            if out['error'] is None:
                out['error'] = f'{name}: {type(ex).__name__}: {str(ex)[:120]}'
            out['failed_stages'].append(name)

    def run(self):
        cfg = self.cfg
        out = {'started': False, 'subscribed': 0, 'notified': False, 'op': None, 'error': None, 'failed_stages': []}
        self._stage(out, 'provider-start', self.build_provider)
        if self.p is None:
            return out
        self._stage(out, 'consumer-start', self.build_consumer)
        c, p = self.c, self.p
        if out['error'] is not None:
            # a consumer that could not start is shut down by its application; the provider goes down too
            if c is not None:
                self._stage(out, 'abort-consumer', lambda: c.stop_all(unsubscribe=True))
            self._stage(out, 'abort-provider', lambda: p.stop_all(send_subscription_end=True))
            return out
        out['started'] = True
        out['subscribed'] = sum(1 for s in c.subscription_mgr.subscriptions.values() if s.is_subscribed)
        self._stage(out, 'mdib', lambda: self.w.mk_consumer_mdib(c))
        n0 = len(self.wire.log)

        def operation():
            kind = cfg['op']
            setc = c.client('Set')
            if kind == 'SetString':
                fut = setc.set_string('DN_SET', 'hello')
            elif kind == 'SetValue':
                fut = setc.set_numeric_value('numeric.ch0.vmd1_sco_0', Decimal(5))
            else:
                fut = setc.activate('actop.mds0_sco_0', None)
            world.drain_operations(p)
            out['op'] = fut.result(timeout=0).InvocationInfo.InvocationState.value if fut.done() else 'pending'
        self._stage(out, 'operation', operation)

        def report():
            A.EVENT_BY_NAME['metric(N1,1)'](p)
            A.EVENT_BY_NAME['alert-cond(on)'](p)
            out['notified'] = any(b'EpisodicMetricReport' in m.data for m in self.wire.log[n0:])
        self._stage(out, 'report', report)

        def renew():
            for s in list(c.subscription_mgr.subscriptions.values()):
                s.renew(30)
                s.get_status()
        self._stage(out, 'renew', renew)
        self._stage(out, 'report2', lambda: A.EVENT_BY_NAME['metric(N1,2)'](p))
        if cfg['p_tls']:
            self._stage(out, 'echo', self.echo_stage)
        if cfg.get('restart'):
            self._stage(out, 'consumer-stop-for-restart', lambda: c.stop_all(unsubscribe=True))
            self._stage(out, 'consumer-restart', lambda: c.start_all(shared_http_server=self.c_shared_server,
                                                                      fixed_renew_interval=10 ** 6))
            self._stage(out, 'report3', lambda: A.EVENT_BY_NAME['alert-cond(off)'](p))
        if cfg['shutdown'] == 'consumer-first':
            self._stage(out, 'consumer-stop', lambda: c.stop_all(unsubscribe=True))
            self._stage(out, 'provider-stop', lambda: p.stop_all(send_subscription_end=True))
        else:
            self._stage(out, 'provider-stop', lambda: p.stop_all(send_subscription_end=True))
            self._stage(out, 'consumer-stop', lambda: c.stop_all(unsubscribe=True))
        self.stage = 'done'
        return out

    def echo_stage(self):
        """Requests that spell the provider's addresses with a plaintext scheme (or a foreign host): what the provider
        advertises in its answers must not follow them."""
        from lxml import etree
        seen = set()
        hosts = [P_IP, P_ALT]
        for msg in list(self.wire.log):
            if msg.src.name != 'consumer':
                continue
            tag = _first_body_tag(msg.data)
            if tag not in ('(empty)', 'GetMetadata', 'Subscribe', 'Renew', 'GetStatus', 'Probe') or (tag, msg.path.count('/')) in seen:
                continue
            seen.add((tag, msg.path.count('/')))
            for variant, host_header in [(v, f'{P_IP}:80') for v in ('http', 'HTTP', 'foreign-host')] + \
                    [('unchanged', hh) for hh in ('localhost:8000', f'{P_ALT}:8000', 'other.example', 'other.example:8080', None)]:
                data = msg.data
                for h in hosts:
                    if variant == 'foreign-host':
                        data = data.replace(f'https://{h}'.encode(), b'http://other.example')
                    elif variant != 'unchanged':
                        data = data.replace(f'https://{h}'.encode(), f'{variant}://{h}'.encode())
                if data == msg.data and variant != 'unchanged':
                    continue
                # the request may also reach the provider under another name than the one it knows (NAT, alias, localhost)
                hd = {'Content-type': 'application/soap+xml; charset=utf-8'}
                if host_header is not None:
                    hd['Host'] = host_header
                headers = world.mk_headers(hd)
                try:
                    status, reason, body = self.p._msg_converter.do_post(headers, msg.path, (C_IP, 4711), data)
                except Exception as ex:  # noqa: BLE001
                    self.echo_problems.append(('request-under-another-host-name-raises', f'{tag} with Host {host_header}: {ex!r}'[:200]))
                    continue
                self.echo_count += 1
                if isinstance(body, str):
                    body = body.encode('utf-8')
                try:
                    root = etree.fromstring(body)
                except etree.XMLSyntaxError:
                    continue
                for el in root.iter():
                    if not isinstance(el.tag, str):
                        continue
                    ln = etree.QName(el).localname
                    texts = []
                    if ln in ('Address', 'XAddrs', 'Location') and el.text:
                        texts += el.text.split()
                    if el.get('location'):
                        texts.append(el.get('location'))
                    for t in texts:
                        m = URL_RE.match(t.encode())
                        if m and m.group(1).lower() != b'https' and (m.group(2).decode() in hosts
                                                                     or m.group(2).split(b':')[0] in (b'other.example', b'localhost')):
                            self.echo_problems.append(('provider-advertises-plaintext-address-from-request',
                                                       f'{ln}={t} in the answer to {tag} spelled with {variant}, Host {host_header}'))

    # -- the oracle
    def judge(self, out):
        cfg = self.cfg
        problems = list(self.echo_problems)
        p_hosts = {P_IP.encode(), P_ALT.encode()}
        c_hosts = {C_IP.encode(), C_ALT.encode()}
        check_p = cfg['p_tls']
        check_c = cfg['c_mode'] == 'enforced'

        def scan(blob, where):
            for m in URL_RE.finditer(blob or b''):
                scheme, host = m.group(1), m.group(2)
                if scheme.lower() == b'https':
                    continue
                if check_p and host in p_hosts:
                    problems.append(('provider-address-plaintext', f'{m.group(0).decode()} in {where}'))
                if check_c and host in c_hosts:
                    problems.append(('consumer-address-plaintext', f'{m.group(0).decode()} in {where}'))

        for msg in self.wire.log:
            tag = _first_body_tag(msg.data)
            scan(msg.data, f'request {tag} from {msg.src.name}')
            resp = msg.response.encode() if isinstance(msg.response, str) else msg.response
            scan(resp, f'response to {tag}')
            if msg.src.name == 'provider' and check_p and not msg.tls:
                problems.append(('provider-sent-without-tls', f'{tag} to {msg.netloc}'))
            if msg.src.name == 'consumer' and check_c and not msg.tls:
                problems.append(('consumer-sent-without-tls', f'{tag} to {msg.netloc}'))
        if self.p is not None:
            for epr, types_, scopes, xaddrs in self.wsd.published:
                for x in xaddrs:
                    scan(x.encode(), 'ws-discovery publication')
            try:
                for x in self.p.get_xaddrs():
                    scan(x.encode(), 'get_xaddrs()')
            except Exception:  # noqa: BLE001
                pass
            for u in self.p.base_urls:
                scan(u.geturl().encode(), 'base_urls')
            for mgr in self.p._subscriptions_managers.values():
                for u in (mgr.base_urls or []):
                    scan(u.geturl().encode(), 'subscription manager base_urls')
        if self.c is not None and self.c._http_server is not None:
            try:
                scan(self.c.base_url.encode(), 'consumer.base_url')
            except Exception:  # noqa: BLE001
                pass
        # every client constructed
        for cl in self.wire.clients:
            if cl.owner.name == 'provider' and check_p and cl.ssl_context is not self.p_cont.client_context:
                problems.append(('provider-client-without-client-context', f'client to {cl.netloc}: {_ctx(cl.ssl_context)}'))
            if cl.owner.name == 'consumer' and check_c and cl.ssl_context is not self.c_cont.client_context:
                problems.append(('consumer-client-without-client-context', f'client to {cl.netloc}: {_ctx(cl.ssl_context)}'))
        # connects
        for who, tls, outcome in self.connects:
            if who == 'provider' and check_p and not tls:
                problems.append(('provider-plaintext-connect', outcome))
            if who == 'consumer' and check_c and not tls:
                problems.append(('consumer-plaintext-connect', outcome))
        # own http servers
        for owner_name, srv, how in self.servers:
            if how != 'own':
                continue
            cont = self.p_cont if owner_name == 'provider' else self.c_cont
            need = check_p if owner_name == 'provider' else check_c
            if not need:
                continue
            if srv._ssl_context is not cont.server_context:
                problems.append((f'{owner_name}-own-server-without-server-context', _ctx(srv._ssl_context)))
            elif srv.httpd is not None and not any(s is srv.httpd.socket and side for s, side in cont.server_context.wrapped):
                problems.append((f'{owner_name}-own-server-socket-not-wrapped', ''))
            if srv.base_url is not None and not srv.base_url.startswith('https://'):
                problems.append((f'{owner_name}-own-server-base-url-plaintext', srv.base_url))
        # liveness for compatible settings (non-vacuity, and "enforced" must not mean "never works")
        compatible = (cfg['p_tls'] and cfg['c_mode'] != 'none') or (not cfg['p_tls'] and cfg['c_mode'] != 'enforced')
        if self.fail_at is None:
            if compatible:
                if out['error'] is not None:
                    problems.append(('compatible-settings-failed', out['error']))
                elif out['subscribed'] < 1 or not out['notified'] or out['op'] not in ('Fin', 'FinMod'):
                    problems.append(('compatible-settings-incomplete', str(out)))
            elif out['started']:
                problems.append(('incompatible-settings-connected', str(out)))
        if (check_c and self.fail_at is not None and tuple(self.fail_at) == ('consumer', 0, 'connect') and out['started']):
            problems.append(('enforced-consumer-started-after-tls-failure', str(out)))
        return problems


def _ctx(c):
    return 'None' if c is None else getattr(c, 'label', type(c).__name__)


def _first_body_tag(data):
    m = re.search(rb'Body>\s*<(?:[A-Za-z0-9_]+:)?([A-Za-z]+)', data or b'')
    return m.group(1).decode() if m else '(empty)'


_LOGGER = None


def world_logger():
    global _LOGGER
    if _LOGGER is None:
        from sdc11073 import loghelper
        _LOGGER = loghelper.get_logger_adapter('sdc.verif.httpsrv', 'verif')
    return _LOGGER


# ------------------------------------------------------------------------------------------------
def _one(acc, cfg):
    sim = Sim(cfg)
    try:
        out = sim.run()
        problems = sim.judge(out)
    finally:
        sim.restore()
    name = cfg_name(cfg)
    acc.evals()
    acc.trace()
    acc.transition(len(sim.wire.log) + len(sim.connects))
    acc.state(h64(('c19', name)))
    sig = (out['started'], out['subscribed'], out['notified'], out['op'], (out['error'] or '').split(':')[0],
           tuple(sorted({c for c in sim.connects})))
    acc.nontrivial(h64(('c19', sig)))
    acc.outcome(f"started={out['started']} op={out['op']} err={(out['error'] or '').split(':')[0]}")
    acc.add('wire-messages', len(sim.wire.log))
    acc.add('connects', len(sim.connects))
    acc.add('requests-with-respelled-addresses', sim.echo_count)
    seen = set()
    for kind, detail in problems:
        if kind in seen:
            continue
        seen.add(kind)
        acc.violation(f'{kind}/{name}', {'config': cfg, 'detail': detail, 'outcome': out,
                                         'all': [f'{k}: {d}' for k, d in problems][:12]}, case={'kind': 'config', 'cfg': cfg})
    if cfg.get('fail_at') is None:
        acc.emit((name, ([c[0] for c in sim.connects], dict(sim.posts))))
    if len(acc.samples) < 3:
        acc.sample({'config': name, 'outcome': out, 'connects': sim.connects[:6]})


def cfg_name(cfg):
    fa = cfg.get('fail_at')
    return ('p={}{}{}{} c={}{}{} op={} down={}{}{}'.format(
        'tls' if cfg['p_tls'] else 'plain', '+shared' if cfg['p_shared'] else '+own', '+alt' if cfg['p_alt'] else '',
        '+async' if cfg['async'] else '', cfg['c_mode'], '+shared' if cfg['c_shared'] else '+own',
        '+alt' if cfg['c_alt'] else '', cfg['op'], cfg['shutdown'], '+restart' if cfg.get('restart') else '', f' fail={fa[2]}:{fa[0]}#{fa[1]}' if fa else ''))


def configs(quick):
    out = []
    ops = ['SetString'] if quick else ['SetString', 'SetValue', 'Activate']
    for p_tls, c_mode, p_shared, c_shared, p_alt, c_alt, asy, op, down, restart in itertools.product(
            (True, False), ('enforced', 'optional', 'none'), (True, False), (True, False), (False, True), (False, True),
            (False, True), ops, ('consumer-first', 'provider-first'), (False, True)):
        if restart and (down == 'provider-first' or c_shared):
            continue     # the restart happens before the shutdown (one order is enough); with a shared server the path
            #              stays registered after stop_all and a second start_all is refused - not a TLS matter
        out.append({'p_tls': p_tls, 'c_mode': c_mode, 'p_shared': p_shared, 'c_shared': c_shared, 'p_alt': p_alt,
                    'c_alt': c_alt, 'async': asy, 'op': op, 'shutdown': down, 'restart': restart, 'fail_at': None})
    return out


# ------------------------------------------------------------------------------------------------ certloader
def _handshake(server_ctx, client_ctx):
    """Real TLS handshake over memory BIOs. Returns (server_ok, client_ok, server_saw_peer_cert, client_saw_peer_cert)."""
    c_in, c_out, s_in, s_out = ssl.MemoryBIO(), ssl.MemoryBIO(), ssl.MemoryBIO(), ssl.MemoryBIO()
    client = client_ctx.wrap_bio(c_in, c_out, server_side=False)
    server = server_ctx.wrap_bio(s_in, s_out, server_side=True)
    done = {'c': None, 's': None}
    for _ in range(40):
        progressed = False
        for key, obj in (('c', client), ('s', server)):
            if done[key] is None:
                try:
                    obj.do_handshake()
                    done[key] = True
                    progressed = True
                except (ssl.SSLWantReadError, ssl.SSLWantWriteError):
                    pass
                except ssl.SSLError:
                    done[key] = False
                    progressed = True
        data = c_out.read()
        if data:
            s_in.write(data)
            progressed = True
        data = s_out.read()
        if data:
            c_in.write(data)
            progressed = True
        if not progressed:
            break
    # TLS 1.3: the client finishes before the server has judged the client certificate; exchange one application
    # record in each direction so that a rejection becomes visible on both sides
    ok_app = {'c': done['c'] is True, 's': done['s'] is True}
    if done['c'] and done['s']:
        try:
            client.write(b'ping')
            s_in.write(c_out.read())
            ok_app['s'] = server.read(4) == b'ping'
            server.write(b'pong')
            c_in.write(s_out.read())
            ok_app['c'] = client.read(4) == b'pong'
        except ssl.SSLError:
            ok_app = {'c': False, 's': False}
    elif done['c'] and done['s'] is False:
        ok_app['c'] = False
    spc = cpc = False
    try:
        spc = bool(server.getpeercert(binary_form=True))
    except (ssl.SSLError, ValueError):
        pass
    try:
        cpc = bool(client.getpeercert(binary_form=True))
    except (ssl.SSLError, ValueError):
        pass
    return bool(ok_app['s'] and done['s']), bool(ok_app['c'] and done['c']), spc, cpc


def _peer_context(side, kind):
    """Contexts of the OTHER party, built by the harness: 'good' (cert of CA A, trusts A), 'foreign' (cert of CA B,
    trusts A and B), 'nocert' (no certificate, trusts A), 'selfsigned'."""
    proto = ssl.PROTOCOL_TLS_SERVER if side == 'server' else ssl.PROTOCOL_TLS_CLIENT
    ctx = ssl.SSLContext(proto)
    if side == 'client':
        ctx.check_hostname = False
    ctx.load_verify_locations(FIX / 'caA.pem')
    ctx.verify_mode = ssl.CERT_REQUIRED if side == 'client' else ssl.CERT_OPTIONAL
    if kind == 'good':
        ctx.load_cert_chain(FIX / 'a1_cert.pem', FIX / 'a1_key.pem')
    elif kind == 'foreign':
        ctx.load_cert_chain(FIX / 'b1_cert.pem', FIX / 'b1_key.pem')
    elif kind == 'selfsigned':
        ctx.load_cert_chain(FIX / 'self_cert.pem', FIX / 'self_key.pem')
    elif kind == 'nocert' and side == 'server':
        return None   # a TLS server always needs a certificate
    return ctx


def _loader_variants():
    from sdc11073 import certloader
    out = []
    for via, cyphers, enc in itertools.product(('direct', 'folder'), (None, 'HIGH:!aNULL'), (False, True)):
        key = 'a2_key_enc.pem' if enc else 'a2_key.pem'
        pw = 'secret' if enc else None
        for pw_kind in (('str', 'bytes', 'callable') if enc else ('none',)):
            passwd = {'none': None, 'str': pw, 'bytes': pw.encode() if pw else None, 'callable': (lambda: 'secret')}[pw_kind]

            def build(via=via, cyphers=cyphers, key=key, passwd=passwd):
                if via == 'direct':
                    return certloader.mk_ssl_contexts(FIX / key, FIX / 'a2_cert.pem', FIX / 'caA.pem', cyphers, passwd)
                cf = None
                if cyphers:
                    cf = 'cyphers.txt'
                return certloader.mk_ssl_contexts_from_folder(FIX, private_key=key, certificate='a2_cert.pem',
                                                              ca_public_key='caA.pem', cyphers_file=cf, ssl_passwd=passwd)
            out.append((f'{via}/cyphers={"set" if cyphers else "none"}/key={"encrypted-" + pw_kind if enc else "plain"}', build))
    return out


PRIOR_LOADS = ('none', 'folder-without-ca', 'direct-without-ca', 'folder-other-ca')


def _prior_load(which):
    """An earlier, weaker use of the loader in the same process (same key and certificate): whatever it leaves behind must not
    weaken what a later call with a CA file returns."""
    from sdc11073 import certloader
    if which == 'folder-without-ca':
        certloader.mk_ssl_contexts_from_folder(FIX, private_key='a2_key.pem', certificate='a2_cert.pem', ca_public_key=None)
        certloader.mk_ssl_contexts_from_folder(FIX, private_key='a2_key_enc.pem', certificate='a2_cert.pem', ca_public_key=None,
                                               ssl_passwd='secret')
    elif which == 'direct-without-ca':
        certloader.mk_ssl_contexts(FIX / 'a2_key.pem', FIX / 'a2_cert.pem', None)
        certloader.mk_ssl_contexts(FIX / 'a2_key_enc.pem', FIX / 'a2_cert.pem', None, None, 'secret')
    elif which == 'folder-other-ca':
        certloader.mk_ssl_contexts_from_folder(FIX, private_key='a2_key.pem', certificate='a2_cert.pem', ca_public_key='caB.pem')


def _loader(acc, arg):
    name, prior = arg
    prior = prior if prior in PRIOR_LOADS else 'none'
    build = dict(_loader_variants())[name]
    try:
        _prior_load(prior)
    except Exception as ex:  # noqa: BLE001
        acc.note(f'prior_load_failed_{prior}', repr(ex)[:120])
    if prior != 'none':
        name = f'{name}/after-{prior}'
    try:
        cont = build()
    except Exception as ex:  # noqa: BLE001
        acc.violation(f'certloader/raises/{name}', {'error': repr(ex)}, case={'kind': 'loader', 'name': name})
        return
    for label, ctx in (('client', cont.client_context), ('server', cont.server_context)):
        acc.evals()
        if ctx.verify_mode != ssl.CERT_REQUIRED:
            acc.violation(f'certloader/{label}-context-not-CERT_REQUIRED/{name}', {'verify_mode': str(ctx.verify_mode)},
                          case={'kind': 'loader', 'name': name})
        if ctx.cert_store_stats().get('x509_ca', 0) < 1:
            acc.violation(f'certloader/{label}-context-without-ca/{name}', ctx.cert_store_stats(),
                          case={'kind': 'loader', 'name': name})
    if cont.client_context is cont.server_context:
        acc.violation(f'certloader/same-context-for-both-roles/{name}', {}, case={'kind': 'loader', 'name': name})
    # library server context against every kind of client
    for kind, want in (('good', True), ('foreign', False), ('selfsigned', False), ('nocert', False)):
        s_ok, c_ok, spc, cpc = _handshake(cont.server_context, _peer_context('client', kind))
        acc.trace()
        acc.transition()
        acc.state(h64(('c19-hs', name, 'server', kind)))
        acc.nontrivial(h64(('c19-hs', 'server', kind, s_ok, c_ok, spc)))
        acc.outcome(f'library-server vs {kind} client: server_ok={s_ok}')
        if s_ok != want or (want and not spc):
            acc.violation(f'certloader/server-context-accepts-{kind}-client/{name}' if s_ok else
                          f'certloader/server-context-rejects-{kind}-client/{name}',
                          {'server_ok': s_ok, 'client_ok': c_ok, 'server_saw_peer_cert': spc},
                          case={'kind': 'loader', 'name': name})
    for kind, want in (('good', True), ('foreign', False), ('selfsigned', False)):
        s_ok, c_ok, spc, cpc = _handshake(_peer_context('server', kind), cont.client_context)
        acc.trace()
        acc.transition()
        acc.state(h64(('c19-hs', name, 'client', kind)))
        acc.nontrivial(h64(('c19-hs', 'client', kind, s_ok, c_ok, cpc)))
        acc.outcome(f'library-client vs {kind} server: client_ok={c_ok}')
        if c_ok != want or (want and (not cpc or not spc)):
            acc.violation(f'certloader/client-context-accepts-{kind}-server/{name}' if c_ok else
                          f'certloader/client-context-rejects-{kind}-server/{name}',
                          {'server_ok': s_ok, 'client_ok': c_ok, 'client_saw_peer_cert': cpc, 'client_presented_cert': spc},
                          case={'kind': 'loader', 'name': name})
    # both library contexts against each other (two parties configured from the same folder)
    s_ok, c_ok, spc, cpc = _handshake(cont.server_context, cont.client_context)
    acc.trace()
    if not (s_ok and c_ok and spc and cpc):
        acc.violation(f'certloader/library-contexts-do-not-interoperate/{name}',
                      {'server_ok': s_ok, 'client_ok': c_ok, 'server_saw_peer_cert': spc, 'client_saw_peer_cert': cpc},
                      case={'kind': 'loader', 'name': name})


# ------------------------------------------------------------------------------------------------
def run(ctx):
    base = configs(ctx.quick)
    ctx.note('configurations', len(base))
    del ctx.emitted[:]
    ctx.pmap(_one, ctx.rotate(base), chunksize=4)
    connects = dict(ctx.emitted)
    del ctx.emitted[:]
    # phase 2: a TLS connect failure injected at every connect position of every party, for every TLS configuration
    by_name = {cfg_name(c): c for c in base}
    faults = []
    for name, (whos, posts) in sorted(connects.items()):
        cfg = by_name[name]
        if not (cfg['p_tls'] or cfg['c_mode'] != 'none'):
            continue
        if ctx.quick and (cfg['shutdown'] != 'consumer-first' or cfg['async'] != cfg['p_alt'] or cfg['c_alt'] != cfg['c_shared']):
            continue
        for who in ('consumer', 'provider'):
            for k in range(whos.count(who)):
                f = dict(cfg)
                f['fail_at'] = (who, k, 'connect')
                faults.append(f)
            for k in range(posts.get(who, 0)):
                f = dict(cfg)
                f['fail_at'] = (who, k, 'post')
                faults.append(f)
    ctx.note('configurations_with_injected_fault', len(faults))
    ctx.pmap(_one, ctx.rotate(faults), chunksize=4)
    variants = [(n, None) for n, _ in _loader_variants()]
    variants += [(n, prior) for n, _ in _loader_variants() for prior in PRIOR_LOADS[1:]]
    ctx.note('certloader_variants', len(variants))
    ctx.pmap(_loader, variants, chunksize=2)
    ctx.note('bounds', 'all 2x3x2x2x2x2x2 TLS configurations x 2 shutdown orders x operations; one injected TLS connect failure at every connect '
                       'position and one dropped connection at every message position of either party; handshakes: every loader variant x {CA cert, foreign-CA '
                       'cert, self-signed cert, no cert} peers in both directions')


def replay(ctx, case):
    if case['kind'] == 'config':
        cfg = case['cfg']
        if cfg.get('fail_at') is not None:
            cfg['fail_at'] = tuple(cfg['fail_at'])
        sim = Sim(cfg)
        try:
            out = sim.run()
            problems = sim.judge(out)
        finally:
            sim.restore()
        for kind, detail in problems:
            ctx.violation(f'{kind}/{cfg_name(cfg)}', detail)
        return {'outcome': out, 'problems': [p[0] for p in problems], 'connects': sim.connects}
    nm = case['name']
    prior = nm.split('/after-')[1] if '/after-' in nm else None
    _loader(ctx, (nm.split('/after-')[0], prior))
    return {'loader': case['name']}
