"""C14 - WS-Discovery answers and records exactly what its matching rules prescribe."""
from __future__ import annotations

import itertools
import queue
from urllib.parse import unquote, urlsplit

from mcx import hist
from mcx.runner import h64

PROPERTY = 'C14'
TECHNIQUE = ('exhaustive enumeration of scope-URI pairs from a URI grammar against a reference matcher and algebraic laws; '
             'explicit-state exploration of discovery message histories through the real datagram reader and WSDiscovery '
             'handlers against a reference model of the remote table, probe/resolve answers and the message-id memory')


# ------------------------------------------------------------------ (a) matching
def uri_grammar(quick):
    schemes = ['sdc.ctxt.loc', 'SDC.CTXT.LOC', 'http']
    auths = ['', '//a.b', '//A.B']
    segs = ['x', 'X', 'x%2Fy', '%78', '']
    out = []
    for s in schemes:
        for a in auths:
            for n in range(0, 3 if quick else 4):
                for path in itertools.product(segs, repeat=n):
                    for trail in ('', '/'):
                        for q in ('', '?q=1'):
                            p = ''.join('/' + seg for seg in path) + trail
                            out.append(f'{s}:{a}{p}{q}')
    seen, uniq = set(), []
    for u in out:
        if u not in seen:
            seen.add(u)
            uniq.append(u)
    return uniq


def authority_grammar():
    """URIs that differ in the parts of the authority (host case, port, userinfo, IPv6 literal, empty port)."""
    auths = ['', '//a.b', '//A.B', '//a.b:8080', '//a.b:9090', '//A.B:8080', '//u@a.b', '//v@a.b', '//u@a.b:8080', '//[::1]:80',
             '//[::1]:81', '//a.b:']
    return [f'{s}:{a}{p}' for s in ('http', 'sdc.ctxt.loc') for a in auths for p in ('', '/x', '/x/y')]


def ref_match(probe_scope, service_scope, rule):
    """Reference from the property text: scheme/authority case-insensitive, path segment-wise prefix after
    percent-decoding (raw split on '/'), query ignored; strcmp: exact string equality."""
    if rule == 'strcmp':
        return probe_scope == service_scope
    a, b = urlsplit(probe_scope), urlsplit(service_scope)
    if a.scheme.lower() != b.scheme.lower() or a.netloc.lower() != b.netloc.lower():
        return False
    sa = [unquote(x) for x in a.path.split('/')]
    sb = [unquote(x) for x in b.path.split('/')]
    if a.path == b.path:
        return True
    return len(sa) <= len(sb) and sb[:len(sa)] == sa


def _match_chunk(acc, arg):
    from sdc11073.wsdiscovery.wsdimpl import MatchBy, match_scope
    firsts, uris = arg
    rules = [('uri', MatchBy.uri), ('uri', None), ('uri', ''), ('strcmp', MatchBy.strcmp)]
    for a in firsts:
        for b in uris:
            for rname, rule in rules:
                acc.add('states')
                acc.transition()
                acc.evals()
                try:
                    got = match_scope(a, b, rule)
                except Exception as ex:  # noqa: BLE001
                    acc.violation(f'match/raises/{rname}/{_cls(a)}|{_cls(b)}', {'probe': a, 'service': b, 'error': repr(ex)},
                                  case={'kind': 'match', 'a': a, 'b': b, 'rule': rname})
                    continue
                want = ref_match(a, b, rname)
                if got != want:
                    acc.violation(f'match/differs/{rname}/{_cls(a)}|{_cls(b)}',
                                  {'probe_scope': a, 'service_scope': b, 'rule': rname, 'got': got, 'expected': want},
                                  case={'kind': 'match', 'a': a, 'b': b, 'rule': rname})
                if got:
                    acc.add('matches')
        acc.trace()
        # laws on the real function
        if not match_scope(a, a, MatchBy.uri) or not match_scope(a, a, MatchBy.strcmp):
            acc.violation(f'match/not-reflexive/{_cls(a)}', {'uri': a}, case={'kind': 'match', 'a': a, 'b': a, 'rule': 'uri'})
        base = a.split('?')[0]
        for b in uris[:60]:
            if match_scope(a, b, MatchBy.uri) != match_scope(base + '?zz=9', b, MatchBy.uri):
                acc.violation(f'match/query-sensitive/{_cls(a)}', {'probe': a, 'service': b},
                              case={'kind': 'match', 'a': a, 'b': b, 'rule': 'uri'})


def _cls(u):
    s = urlsplit(u)
    return f'{s.scheme}:{"auth" if s.netloc else "noauth"}:{s.path.count("/")}seg{"/" if s.path.endswith("/") else ""}'


def _filters(ctx):
    """matches_filter / filter_services over all small type and scope lists."""
    from lxml import etree
    from sdc11073.wsdiscovery.service import Service
    from sdc11073.wsdiscovery.wsdimpl import MatchBy, filter_services, matches_filter
    from sdc11073.xml_types.wsd_types import ScopesType
    q = [etree.QName('urn:a', 'T1'), etree.QName('urn:a', 'T2'), etree.QName('urn:b', 'T1')]
    uris = ['http://a.b/x', 'http://A.B/x/y', 'http://a.b/z', 'sdc.ctxt.loc:/x%2Fy']
    type_lists = [None] + [list(t) for n in range(0, 3) for t in itertools.permutations(q, n)]
    scope_lists = [None] + [list(t) for n in range(0, 3) for t in itertools.permutations(uris, n)]
    # requested scopes also with the scheme spelled in another case than the services use
    req_uris = uris + ['HTTP://a.b/x', 'SDC.CTXT.LOC:/x%2Fy', 'Http://A.b/z']
    req_scope_lists = [None] + [list(t) for n in range(0, 3) for t in itertools.permutations(req_uris, n)]

    def mk_scopes(lst, rule=None):
        if lst is None:
            return None
        s = ScopesType(match_by=rule)
        s.text.extend(lst)
        return s

    services = []
    for tl in type_lists:
        for sl in scope_lists[:8]:
            services.append(Service(tl if tl is not None else [], mk_scopes(sl), ['http://1.2.3.4/'], f'urn:e{len(services)}', '1'))
    for req_t in type_lists:
        for req_s in req_scope_lists:
            for rule, rname in ((None, 'uri'), (MatchBy.strcmp, 'strcmp')):
                want = []
                for srv in services:
                    ok = True
                    if req_t is not None:
                        for t in req_t:
                            if not any(t.namespace == x.namespace and t.localname == x.localname for x in (srv.types or [])):
                                ok = False
                    if ok and req_s is not None:
                        for u in req_s:
                            if srv.scopes is None or not any(ref_match(u, x, rname) for x in srv.scopes.text):
                                ok = False
                    if ok:
                        want.append(srv.epr)
                ctx.add('states')
                ctx.transition(len(services))
                ctx.evals()
                try:
                    got = [s.epr for s in filter_services(services, req_t, mk_scopes(req_s, rule))]
                    single = [s.epr for s in services if matches_filter(s, req_t, mk_scopes(req_s, rule))]
                except Exception as ex:  # noqa: BLE001
                    ctx.violation(f'filter/raises/{type(ex).__name__}', {'types': str(req_t), 'scopes': req_s, 'error': repr(ex)},
                                  case={'kind': 'filter'})
                    continue
                if got != want or single != want:
                    ctx.violation(f'filter/differs/types={0 if not req_t else len(req_t)}/scopes={0 if not req_s else len(req_s)}/{rname}',
                                  {'types': [str(t) for t in req_t or []], 'scopes': req_s, 'rule': rname,
                                   'missing': sorted(set(want) - set(got))[:4], 'extra': sorted(set(got) - set(want))[:4]},
                                  case={'kind': 'filter'})


# ------------------------------------------------------------------ (b) tables
EPRS = {'A': 'urn:uuid:epr-a', 'B': 'urn:uuid:epr-b'}
PEER = ('10.0.0.7', 3702)


class _StubNt:
    """Recording stand-in for the socket half of NetworkingThread (the datagram reader part runs for real)."""

    def __init__(self):
        self.out = []
        self.reader = None

    def add_outbound_message(self, msg, addr, port, params):
        self.out.append((msg.p_msg.header_info_block.Action, addr, port, msg, params))
        if self.reader is not None:   # the real code registers own ids in the id memory and fills the send queue
            self.reader.add_outbound_message(msg, addr, port, params)


class _ScriptedQueue:
    def __init__(self, nt, items):
        self.nt, self.items = nt, list(items)

    def get(self, timeout=None):  # noqa: ARG002
        if self.items:
            return self.items.pop(0)
        self.nt._quit_recv_event.set()
        raise queue.Empty


class Sim:
    def __init__(self):
        from mcx.checks import c15
        from sdc11073.wsdiscovery import networkingthread as ntmod
        from sdc11073.wsdiscovery import wsdimpl
        self.wsdimpl = wsdimpl
        self.wsd = wsdimpl.WSDiscovery('127.0.0.1')
        self.reader = c15._mk_nt(ntmod, self.wsd)   # real NetworkingThread without sockets: _run_q_read is real
        self.stub = _StubNt()
        self.stub.reader = self.reader
        self.wsd._networking_thread = self.stub
        self.wsd._server_started = True
        self.msg_counter = 0
        self.last_bytes = None
        self.delivered = []         # every datagram delivered so far (for repetitions of older messages)
        self.callback_mode = None
        self.callback_calls = 0
        # reference model
        self.remote = {}      # epr -> {'version': v, 'candidates': [announcement dicts of that version]}
        self.local = {}
        self.seen_ids = []

    # -- message construction with the library's own types
    def _mk(self, payload, with_appseq, relates_to=None):
        from sdc11073.namespaces import default_ns_helper as nsh
        from sdc11073.xml_types import wsd_types
        from sdc11073.xml_types.addressing_types import HeaderInformationBlock
        inf = HeaderInformationBlock(action=payload.action, addr_to=self.wsdimpl.ADDRESS_ALL, relates_to=relates_to)
        self.msg_counter += 1
        inf.MessageID = f'urn:uuid:00000000-0000-0000-0000-{self.msg_counter:012d}'
        msg = self.wsdimpl._mk_wsd_soap_message(inf, payload)
        if with_appseq:
            app = wsd_types.AppSequenceType()
            app.InstanceId = 42
            app.MessageNumber = self.msg_counter
            msg.p_msg.add_header_element(app.as_etree_node(nsh.WSD.tag('AppSequence'), ns_map=nsh.partial_map(nsh.WSD)))
        return inf.MessageID, msg.serialize()

    def _fill(self, target, epr, version, shape):
        from lxml import etree
        from sdc11073.xml_types import wsd_types
        target.EndpointReference.Address = EPRS[epr]
        target.MetadataVersion = version
        ann = {'version': version, 'types': None, 'scopes': None, 'xaddrs': []}
        if shape in ('full', 'no-xaddrs'):
            target.Types = [etree.QName('urn:t', f'T{version}')]
            target.Scopes = wsd_types.ScopesType(f'http://a.b/{epr}/v{version}')
            ann['types'] = [f'{{urn:t}}T{version}']
            ann['scopes'] = [f'http://a.b/{epr}/v{version}']
        if shape in ('full', 'no-types-scopes'):
            target.XAddrs = [f'http://10.0.0.{version}:80/{epr}']
            ann['xaddrs'] = [f'http://10.0.0.{version}:80/{epr}']
        return ann

    def deliver(self, data):
        self.reader._quit_recv_event.clear()
        self.reader._read_queue = _ScriptedQueue(self.reader, [(PEER, data)])
        self.reader._run_q_read()
        self.last_bytes = data
        if not self.delivered or self.delivered[-1] != data:
            self.delivered.append(data)

    # -- events ---------------------------------------------------------------------------
    def event(self, ev):
        """Apply one event to the implementation and to the reference model; return list of problems."""
        from lxml import etree
        from sdc11073.xml_types import wsd_types
        kind = ev[0]
        n_out = len(self.stub.out)
        before = self.table()
        expect_out = []
        if kind in ('hello', 'pmatch', 'rmatch'):
            _, epr, version, shape, appseq = ev
            if kind == 'hello':
                payload = wsd_types.HelloType()
                ann = self._fill(payload, epr, version, shape)
            elif kind == 'pmatch':
                payload = wsd_types.ProbeMatchesType()
                pm = wsd_types.ProbeMatchType()
                ann = self._fill(pm, epr, version, shape)
                payload.ProbeMatch.append(pm)
            else:
                payload = wsd_types.ResolveMatchesType()
                payload.ResolveMatch = wsd_types.ResolveMatchType()
                ann = self._fill(payload.ResolveMatch, epr, version, shape)
            mid, data = self._mk(payload, appseq, relates_to='urn:uuid:rel' if kind != 'hello' else None)
            self.deliver(data)
            if appseq:
                cur = self.remote.get(EPRS[epr])
                if cur is None or version > cur['version']:
                    self.remote[EPRS[epr]] = {'version': version, 'candidates': [ann]}
                elif version == cur['version']:
                    cur['candidates'].append(ann)
            expect_out = None  # follow-up Resolve requests for incomplete announcements are allowed, not required
        elif kind == 'bye':
            payload = wsd_types.ByeType()
            payload.EndpointReference.Address = EPRS[ev[1]]
            mid, data = self._mk(payload, True)
            self.deliver(data)
            self.remote.pop(EPRS[ev[1]], None)
        elif kind == 'probe':
            _, types, scope, rule = ev
            payload = wsd_types.ProbeType()
            payload.Types = [etree.QName('urn:t', t) for t in types] if types is not None else None
            if scope is not None:
                payload.Scopes = wsd_types.ScopesType(scope, match_by=rule)
            mid, data = self._mk(payload, False)
            self.deliver(data)
            for epr, srv in sorted(self.local.items()):
                ok = all(any(t == x for x in srv['types']) for t in (types or []))
                if ok and scope is not None:
                    rname = 'strcmp' if rule and rule.endswith('strcmp0') else 'uri'
                    ok = any(ref_match(scope, s, rname) for s in srv['scopes'])
                if ok:
                    expect_out.append(('ProbeMatches', epr))
        elif kind == 'probe-rebound':
            # the same lexical QName list as a normal Probe for T1 (ns0:T1), but the prefix is bound to another namespace
            # (binding 'other') or another prefix is bound to the right namespace (binding 'same'): QNames are compared by
            # (namespace, local name), never by their text
            _, binding = ev
            payload = wsd_types.ProbeType()
            payload.Types = [etree.QName('urn:t', 'T1')]
            mid, data = self._mk(payload, False)
            if binding == 'other':
                data = data.replace(b'xmlns:ns0="urn:t">ns0:T1<', b'xmlns:ns0="urn:not-t">ns0:T1<')
                wanted_ns = 'urn:not-t'
            else:
                data = data.replace(b'xmlns:ns0="urn:t">ns0:T1<', b'xmlns:q="urn:t">q:T1<')
                wanted_ns = 'urn:t'
            self.deliver(data)
            for epr, srv in sorted(self.local.items()):
                if wanted_ns == 'urn:t' and 'T1' in srv['types']:
                    expect_out.append(('ProbeMatches', epr))
        elif kind == 'resolve':
            payload = wsd_types.ResolveType()
            payload.EndpointReference.Address = ev[1]
            mid, data = self._mk(payload, False)
            self.deliver(data)
            if ev[1] in self.local:
                expect_out.append(('ResolveMatches', ev[1]))
        elif kind == 'repeat':
            k = ev[1] if len(ev) > 1 else 1       # k = 1: the last datagram again, k = 2: the one before it, ...
            if len(self.delivered) < k:
                return 'disabled', []
            calls = self.callback_calls
            data = self.delivered[-k]
            self.deliver(data)   # same MessageID again: must cause no action at all
            expect_out = []
            problems = []
            if len(self.stub.out) != n_out:
                problems.append(f'a repeated MessageID caused {len(self.stub.out) - n_out} outgoing message(s)')
            if self.table() != before:
                problems.append('a repeated MessageID changed the remote service table')
            if self.callback_calls != calls:
                problems.append('a repeated MessageID was handed to the application callback again')
            return 'ok', problems + self.check_table()
        elif kind == 'callback':
            # the application's hello callback: absent, well-behaved, or raising (application code is a fault source the
            # discovery node has to survive: the message stays "seen")
            self.callback_mode = ev[1]

            def cb(addr_from, service):  # noqa: ARG001
                self.callback_calls += 1
                if self.callback_mode == 'raises':
                    raise RuntimeError('application callback failed')
            self.wsd.set_remote_service_hello_callback(cb if ev[1] != 'none' else None)
            return 'ok', self.check_table()
        elif kind == 'prefill':
            # fill the id memory through the real reader with n foreign, otherwise irrelevant datagrams
            payload = wsd_types.ResolveType()
            payload.EndpointReference.Address = 'urn:uuid:nobody'
            for _ in range(ev[1]):
                _mid, data = self._mk(payload, False)
                self.reader._quit_recv_event.clear()
                self.reader._read_queue = _ScriptedQueue(self.reader, [(PEER, data)])
                self.reader._run_q_read()
            return 'ok', self.check_table()
        elif kind == 'publish':
            _, epr = ev
            from sdc11073.xml_types import wsd_types as wt
            self.wsd.publish_service(EPRS[epr], [etree.QName('urn:t', 'T1')], wt.ScopesType(f'http://a.b/{epr}/x'),
                                     [f'http://me/{epr}'])
            self.local[EPRS[epr]] = {'types': ['T1'], 'scopes': [f'http://a.b/{epr}/x']}
            expect_out = [('Hello', EPRS[epr])]
        elif kind == 'publish2':
            # the same endpoint is published again with other scopes (the device moved): from now on only the new ones count
            _, epr = ev
            from sdc11073.xml_types import wsd_types as wt
            self.wsd.publish_service(EPRS[epr], [etree.QName('urn:t', 'T1')], wt.ScopesType(f'http://a.b/{epr}/second'),
                                     [f'http://me/{epr}'])
            self.local[EPRS[epr]] = {'types': ['T1'], 'scopes': [f'http://a.b/{epr}/second']}
            expect_out = [('Hello', EPRS[epr])]
        elif kind == 'clear':
            if EPRS[ev[1]] not in self.local:
                return 'disabled', []
            self.wsd.clear_service(EPRS[ev[1]])
            self.local.pop(EPRS[ev[1]])
            expect_out = [('Bye', EPRS[ev[1]])]
        else:
            raise ValueError(ev)
        problems = self.check_table()
        new_out = self.stub.out[n_out:]
        if expect_out is not None:
            got = sorted((a.split('/')[-1], self._epr_of(m)) for a, _addr, _port, m, _p in new_out)
            if got != sorted(expect_out):
                problems.append(f'answers {got} differ from expected {sorted(expect_out)}')
            for a, addr, port, _m, _p in new_out:
                if a.endswith(('ProbeMatches', 'ResolveMatches')) and (addr, port) != PEER:
                    problems.append(f'{a.split("/")[-1]} sent to {addr}:{port}, request came from {PEER}')
        else:
            for a, _addr, _port, _m, _p in new_out:
                if not a.endswith('/Resolve'):
                    problems.append(f'unexpected outgoing {a.split("/")[-1]} after an announcement')
        return 'ok', problems

    @staticmethod
    def _epr_of(msg):
        body = msg.p_msg.payload_element
        for el in body.iter():
            if isinstance(el.tag, str) and el.tag.endswith('}Address'):
                return el.text
        return None

    def table(self):
        out = {}
        for epr, s in self.wsd._remote_services.items():
            out[epr] = (s.metadata_version, tuple(str(t) for t in (s.types or [])) if s.types is not None else None,
                        tuple(s.scopes.text) if s.scopes is not None else None, tuple(s.x_addrs))
        return out

    def check_table(self):
        problems = []
        tab = self.table()
        if set(tab) != set(self.remote):
            problems.append(f'remote table has {sorted(tab)}, reference model has {sorted(self.remote)}')
            return problems
        for epr, (version, types, scopes, xaddrs) in tab.items():
            ref = self.remote[epr]
            if version != ref['version']:
                problems.append(f'{epr}: metadata version {version}, highest seen since last Bye is {ref["version"]}')
                continue
            cands = ref['candidates']
            if not any((list(types) if types is not None else None) == c['types'] or (types in (None, ()) and not c['types']) for c in cands):
                problems.append(f'{epr}: types {types} come from no announcement of version {version}')
            if not any((list(scopes) if scopes is not None else None) == c['scopes'] or (scopes in (None, ()) and not c['scopes']) for c in cands):
                problems.append(f'{epr}: scopes {scopes} come from no announcement of version {version}')
            if not any(list(xaddrs) == c['xaddrs'] for c in cands):
                problems.append(f'{epr}: x_addrs {xaddrs} come from no announcement of version {version}')
        return problems

    def key(self):
        return (tuple(sorted(self.table().items())), tuple(sorted(self.local)))


def alphabet(quick):
    evs = []
    for kind in ('hello', 'pmatch', 'rmatch'):
        for epr in ('A', 'B') if not quick else ('A',):
            for v in (1, 2, 3) if not quick else (1, 2):
                for shape in ('full', 'no-xaddrs', 'no-types-scopes'):
                    evs.append((kind, epr, v, shape, True))
        evs.append((kind, 'A', 3, 'full', False))
    if quick:
        evs += [('hello', 'B', 1, 'full', True), ('pmatch', 'B', 2, 'full', True)]
    evs += [('probe-rebound', 'other'), ('probe-rebound', 'same'), ('publish2', 'A'), ('probe', None, 'http://a.b/A/second', None),
            ('probe', None, 'http://a.b/A/x', 'http://docs.oasis-open.org/ws-dd/ns/discovery/2009/01/strcmp0')]
    evs += [('bye', 'A'), ('bye', 'B'), ('repeat',), ('repeat', 2), ('callback', 'raises'), ('callback', 'ok'), ('publish', 'A'), ('publish', 'B'), ('clear', 'A'),
            ('probe', None, None, None), ('probe', ['T1'], None, None), ('probe', ['T9'], None, None),
            ('probe', ['T1'], 'http://A.B/A', None), ('probe', None, 'http://a.b/B/x/y', None), ('probe', None, 'HTTP://a.b/A', None),
            ('probe', None, 'http://a.b/A/x', 'http://docs.oasis-open.org/ws-dd/ns/discovery/2009/01/strcmp0'),
            ('probe', None, 'http://A.B/A/x', 'http://docs.oasis-open.org/ws-dd/ns/discovery/2009/01/strcmp0'),
            ('resolve', EPRS['A']), ('resolve', 'urn:uuid:unknown')]
    return evs


def run_hist(h, acc=None):
    sim = Sim()
    for i, ev in enumerate(h):
        status, problems = sim.event(tuple(ev))
        if acc is not None:
            acc.transition()
            acc.outcome('table-event-' + status)
            k = h64(sim.key())
            if acc.state(k):
                acc.nontrivial(k)
        if problems:
            return i, problems
    return None


def _work(acc, h):
    acc.trace()
    acc.evals()
    res = run_hist(h, acc)
    if res is not None:
        step, problems = res
        sig = problems[0].split(':')[0][:60] if ':' in problems[0] else problems[0][:60]

        def rerun(c):
            r = run_hist(c)
            if r is None:
                return None
            s2 = r[1][0].split(':')[0][:60] if ':' in r[1][0] else r[1][0][:60]
            return (r[0], 'table', s2, r[1])
        small = hist.minimise(rerun, h, step, 'table', sig)
        acc.violation('table/' + sig + '/' + '>'.join('.'.join(str(x) for x in ev) for ev in small),
                      {'history': [list(map(str, ev)) for ev in small], 'problems': problems[:3]},
                      case={'kind': 'table', 'history': [list(ev) for ev in small]})


def run(ctx):
    uris = uri_grammar(ctx.quick)
    ctx.rule = ('(a) all ordered pairs over a %d-URI grammar (3 schemes x 3 authorities x 0-%d path segments over {x, X, x%%2Fy, '
                '%%78, empty} x trailing slash x query) under rfc3986/default/strcmp matching against a reference matcher, plus '
                'reflexivity and query-blindness; all type lists and scope lists of length <= 2 through matches_filter / '
                'filter_services; (b) histories of discovery datagrams (Hello/ProbeMatches/ResolveMatches with versions, missing parts, '
                'missing AppSequence; Bye; Probe; Resolve; repeated MessageID; local publish/clear) through the real _run_q_read and '
                'WSDiscovery handlers against a reference model. distinct_nontrivial = distinct (remote table, local services) states'
                % (len(uris), 2 if ctx.quick else 3))
    pick = uris if not ctx.quick else uris[::3]
    n = max(1, len(pick) // 64)
    ctx.pmap(_match_chunk, [(pick[i:i + n], uris) for i in range(0, len(pick), n)], chunksize=1)
    au = authority_grammar()
    ctx.note('authority_grammar', len(au))
    ctx.pmap(_match_chunk, [(au[i:i + 6], au) for i in range(0, len(au), 6)], chunksize=1)
    _filters(ctx)
    evs = alphabet(ctx.quick)
    depth = 3
    jobs = hist.sequences(evs, 2) + [[('publish', 'A'), ('publish', 'B')] + list(t) for t in itertools.product(evs, repeat=1)]
    if ctx.quick:
        core = [e for e in evs if e[0] in ('hello', 'pmatch', 'bye', 'repeat') and (len(e) < 4 or e[3] != 'no-xaddrs')]
        jobs += hist.sequences(core, depth)
    else:
        jobs += hist.sequences(evs, depth)
    # application callback that raises / behaves: every announcement, one further event, then the announcement's datagram
    # again (its id is still remembered: nothing may happen, whatever the callback did the first time)
    # publish, publish again with other scopes (in both orders), then every probe
    probes = [e for e in evs if e[0] == 'probe']
    jobs += [[('publish', 'A'), ('publish2', 'A'), pr] for pr in probes] + [[('publish2', 'A'), ('publish', 'A'), pr] for pr in probes]
    # a Probe for a type, then Probes with the same / another text for the same / another QName, in every order
    tp = [('probe', ['T1'], None, None), ('probe-rebound', 'other'), ('probe-rebound', 'same'), ('probe', ['T9'], None, None)]
    jobs += [[('publish', 'A')] + list(t) for t in itertools.permutations(tp, 3)]
    ann = [e for e in evs if e[0] in ('hello', 'pmatch', 'rmatch')]
    second = [e for e in evs if e[0] in ('bye', 'hello', 'probe') and (len(e) < 4 or e[3] == 'full')]
    for mode in ('raises', 'ok'):
        jobs += [[('callback', mode), a, b, ('repeat', 2)] for a in ann for b in second]
    # the same with a full id memory: every event followed by a repetition of its datagram
    maxlen = 200
    for n in (maxlen - 1, maxlen, maxlen + 5):
        jobs += [[('prefill', n), ('publish', 'A'), ev, ('repeat',)] for ev in evs if ev[0] not in ('repeat', 'publish', 'clear')]
        jobs += [[('publish', 'A'), ('prefill', n), ev, ('repeat',), ('repeat',)] for ev in evs if ev[0] in ('probe', 'resolve', 'hello')]
    ctx.note('bounds', {'uris': len(uris), 'probe_uris': len(pick), 'table_alphabet': len(evs), 'table_depth': depth,
                        'table_histories': len(jobs)})
    ctx.pmap(_work, ctx.rotate(jobs))
    ctx.sample({'uri_pair': [uris[7], uris[len(uris) // 2]]})
    ctx.sample({'history': [list(map(str, e)) for e in jobs[len(jobs) // 2]]})
    ctx.assumptions.append('ldap and uuid matching rules are not covered (the property only defines rfc3986 and strcmp0)')
    ctx.assumptions.append('sockets replaced by a recording stub; datagrams enter through the real _run_q_read loop body; '
                           'follow-up Resolve requests after incomplete announcements are allowed but not required')


def replay(ctx, case):
    if case['kind'] == 'match':
        from sdc11073.wsdiscovery.wsdimpl import MatchBy, match_scope
        rule = MatchBy.strcmp if case['rule'] == 'strcmp' else MatchBy.uri
        got = match_scope(case['a'], case['b'], rule)
        want = ref_match(case['a'], case['b'], case['rule'])
        if got != want:
            ctx.violation(f'match/differs/{case["rule"]}', {'got': got, 'expected': want})
        return {'got': got, 'expected': want}
    if case['kind'] == 'table':
        res = run_hist([tuple(e) for e in case['history']])
        if res is not None:
            ctx.violation('table/' + res[1][0][:60], res[1][:3])
        return {'result': None if res is None else [res[0], res[1][:3]]}
    _filters(ctx)
    return {'violations': sorted(ctx.violations)}
