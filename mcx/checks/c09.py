"""C09 - operation invocations follow the BICEPS invocation-state protocol end to end."""
from __future__ import annotations

import itertools
from concurrent.futures import Future
from decimal import Decimal

from lxml import etree

from mcx import alphabet as A
from mcx import canon, world
from mcx.runner import h64

PROPERTY = 'C09'
TECHNIQUE = ('exhaustive enumeration of request sequences (operation kind x direct/queued x handler outcome x 2 consumers) on the '
             'real provider stack with the worker loop body driven explicitly, and exhaustive enumeration of all orderings of the '
             'HTTP response with the 1-3 reports of a transaction (and of two overlapping transactions) on the real consumer '
             'OperationsManager; oracle = regular language of invocation-state words per transaction id')

MSG = 'http://standards.ieee.org/downloads/11073/11073-10207-2017/message'
FINAL = {'Fin', 'FinMod', 'Fail', 'Cnclld', 'CnclldMan'}
OPS = {
    'SetString': 'DN_SET',
    'SetValue': 'numeric.ch0.vmd1_sco_0',
    'Activate': 'actop.mds0_sco_0',
    'SetContextState': 'opSetPatCtx',
    'SetAlertState': 'as0.mds0_rem_dele',
}
HANDLERS = ('real', 'ok', 'ok-mod', 'fail', 'raise')
# exceptions with awkward texts / types: the Fail report must still be produced and carry error information
RAISE_TEXTS = {
    'raise': lambda: RuntimeError('handler exploded'),
    'raise-ctl': lambda: RuntimeError('bad \x00 byte \x1b[31m and \x08'),
    'raise-xml': lambda: ValueError('<a & b> ]]> "quoted" \'single\' &amp;'),
    'raise-uni': lambda: KeyError('Gr\u00f6\u00dfe \u20ac \ud7ff \U0001f600'),
    'raise-empty': lambda: RuntimeError(),
    'raise-long': lambda: OSError(5, 'x' * 70000),
    'raise-nl': lambda: RuntimeError('line1\r\nline2\n\ttabbed  '),
    'raise-surrogate': lambda: RuntimeError('lone \udc80 surrogate \ufffe'),
    'raise-fmt': lambda: RuntimeError('100% of {range} %s %d %(x)s {0} {} {{ }'),
}
QUEUE_CAPACITY = 10     # sco._OperationsWorker: queue.Queue(10)


# ------------------------------------------------------------------ provider side
def _send(consumer, provider, kind, handle):
    setc = consumer.client('Set')
    if kind == 'SetString':
        return setc.set_string(handle, 'hello')
    if kind == 'SetValue':
        return setc.set_numeric_value(handle, Decimal(5))
    if kind == 'Activate':
        return setc.activate(handle, None)
    if kind == 'SetContextState':
        ctx = consumer.client('Context')
        st = ctx.mk_proposed_context_object(A.PAT)
        st.CoreData.Givenname = 'Op'
        return ctx.set_context_state(handle, [st])
    if kind == 'SetAlertState':
        st = consumer.mdib.states.descriptor_handle.get_one('as0.mds0_rem').mk_copy()
        st.ActivationState = A._pm().AlertActivation.PAUSED
        return setc.set_alert_state(handle, st)
    raise ValueError(kind)


def _install_handler(provider, handle, mode, delayed):
    from sdc11073.provider.operations import ExecuteResult
    from sdc11073.xml_types.msg_types import InvocationState
    op = provider.get_operation_by_handle(handle)
    if op is None:
        return None
    op.delayed_processing = delayed
    if mode == 'real':
        return op
    target = op.operation_target_handle

    def handler(params):
        if mode == 'ok':
            return ExecuteResult(target, InvocationState.FINISHED)
        if mode == 'ok-mod':
            return ExecuteResult(target, InvocationState.FINISHED_MOD)
        if mode == 'fail':
            return ExecuteResult(target, InvocationState.FAILED)
        raise RAISE_TEXTS[mode]()
    op._operation_handler = handler
    return op


def _reports_for(consumer_log):
    """[(transaction id, state, has_error, has_message)] in arrival order from recorded OperationInvokedReports."""
    out = []
    for data in consumer_log:
        doc = etree.fromstring(data)
        for part in doc.iter(f'{{{MSG}}}ReportPart'):
            info = part.find(f'{{{MSG}}}InvocationInfo')
            if info is None:
                continue
            tid = int(info.findtext(f'{{{MSG}}}TransactionId'))
            state = info.findtext(f'{{{MSG}}}InvocationState')
            err = info.findtext(f'{{{MSG}}}InvocationError')
            msgs = info.findall(f'{{{MSG}}}InvocationErrorMessage')
            out.append((tid, state, err is not None, len(msgs) > 0))
    return out


def run_provider_case(case, acc=None):
    """case = list of (consumer index, kind, delayed, handler mode) - all requests are sent, then the worker is drained."""
    w = world.World()
    p = w.mk_provider()
    consumers = [w.mk_consumer(p, ip=f'10.0.0.{2 + i}', port=9000 + i) for i in range(2)]
    for c in consumers:
        w.mk_consumer_mdib(c)
    problems = []
    before = canon.snapshot(p.mdib)
    n0 = len(w.wire.log)
    futures = []
    last_id = 0
    rejected_by_fault = 0
    unregistered = {}
    for (ci, kind, delayed, mode) in case:
        if kind.startswith('Unregister:'):
            # the application takes the operation away (and may register it again later): requests for its handle are
            # requests for an unknown operation from now on
            k = kind.split(':')[1]
            for reg in p._sco_operations_registries.values():
                op = reg.get_operation_by_handle(OPS[k])
                if op is not None:
                    reg.unregister_operation_by_handle(OPS[k])
                    unregistered[k] = (reg, op)
            continue
        if kind.startswith('Register:'):
            k = kind.split(':')[1]
            if k in unregistered:
                reg, op = unregistered.pop(k)
                reg.register_operation(op)
            continue
        handle = OPS.get(kind, 'no.such.operation') if kind != 'Unknown' else 'no.such.operation'
        if kind in unregistered:
            # same request as before, but the operation is gone: must be handled like any unknown operation
            before_unknown = canon.snapshot(p.mdib)
            try:
                fut = _send(consumers[ci], p, kind, handle)
            except Exception as ex:  # noqa: BLE001
                problems.append(f'{kind}/unregistered: request raised {type(ex).__name__} {str(ex)[:60]}')
                return 'ok', problems
            world.drain_operations(p)
            if canon.diff(before_unknown, canon.snapshot(p.mdib)):
                problems.append(f'{kind}/unregistered: unknown operation touched the MDIB (the handler of the un-registered operation ran)')
            futures.append((fut, 'Unknown', delayed, mode))
            continue
        if kind != 'Unknown' and _install_handler(p, handle, mode, delayed) is None:
            return 'disabled', []
        try:
            fut = _send(consumers[ci], p, 'SetString' if kind == 'Unknown' else kind, handle)
        except Exception as ex:  # noqa: BLE001
            if len(case) > QUEUE_CAPACITY and len(futures) >= QUEUE_CAPACITY and delayed:
                # a burst beyond the capacity of the operation queue: refusing the request (fault) is an answer that
                # promises nothing; what is not allowed is to promise Wait and never execute
                rejected_by_fault += 1
                continue
            problems.append(f'{kind}/{"queued" if delayed else "direct"}/{mode}: request raised {type(ex).__name__} {str(ex)[:60]}')
            return 'ok', problems
        futures.append((fut, kind, delayed, mode))
        # the response is known now (call_operation returned): its transaction id must exceed all earlier ones
    world.drain_operations(p)
    # collect
    netloc0 = f'{consumers[0].verif_owner.ip}:9000'
    reports = _reports_for([m.data for m in w.wire.log[n0:] if m.netloc == netloc0 and b'OperationInvokedReport' in m.data])
    ids = []
    for fut, kind, delayed, mode in futures:
        if not fut.done():
            problems.append(f'{kind}/{mode}: result handle never completed')
            continue
        try:
            res = fut.result(timeout=0)
        except Exception as ex:  # noqa: BLE001
            problems.append(f'{kind}/{mode}: result handle holds exception {ex!r}')
            continue
        resp_state = res.set_response.InvocationInfo.InvocationState.value
        tid = res.set_response.InvocationInfo.TransactionId
        ids.append(tid)
        word = [s for t, s, _e, _m in reports if t == tid]
        finals = {s for s in word if s in FINAL} | ({resp_state} if resp_state in FINAL else set())
        tag = f'{kind}/{"queued" if delayed else "direct"}/{mode}'
        if kind == 'Unknown':
            if resp_state != 'Fail':
                problems.append(f'{tag}: unknown operation answered with {resp_state}')
            if word:
                problems.append(f'{tag}: reports {word} for an unknown operation')
            continue
        if resp_state == 'Wait':
            if len(word) != 3 or word[:2] != ['Wait', 'Start'] or word[2] not in FINAL:
                problems.append(f'{tag}: response Wait, reports {word}: not Wait Start <final>')
        elif resp_state in FINAL:
            if any(s not in FINAL for s in word) or len(word) > 1:
                problems.append(f'{tag}: response {resp_state}, reports {word}: not a single final state')
        else:
            problems.append(f'{tag}: response state {resp_state}')
        if len(finals) != 1:
            problems.append(f'{tag}: {len(finals)} distinct final states {sorted(finals)} (response {resp_state}, reports {word})')
        final = res.InvocationInfo.InvocationState.value
        if final not in FINAL:
            problems.append(f'{tag}: result handle completed with non-final state {final}')
        elif finals and final not in finals:
            problems.append(f'{tag}: result handle completed with {final}, protocol final state is {sorted(finals)}')
        if mode.startswith('raise'):
            if finals != {'Fail'}:
                problems.append(f'{tag}: raising handler yields {sorted(finals)} instead of Fail')
            errs = [(e, m) for t, s, e, m in reports if t == tid and s == 'Fail']
            resp_err = res.set_response.InvocationInfo.InvocationError is not None
            if not resp_err and not any(e and m for e, m in errs):
                problems.append(f'{tag}: Fail without error information')
        if mode == 'fail' and finals != {'Fail'}:
            problems.append(f'{tag}: handler result Fail reported as {sorted(finals)}')
        if mode in ('ok', 'ok-mod') and not finals <= {'Fin', 'FinMod'}:
            problems.append(f'{tag}: successful handler reported as {sorted(finals)}')
        parts = [pt.InvocationInfo.InvocationState.value for pt in res.report_parts]
        if parts != word and consumers[0] is not None and fut is not None:
            # the future belongs to the calling consumer, reports were recorded at consumer 0: both get all reports
            problems.append(f'{tag}: result handle carries report parts {parts}, transaction had {word}')
    if len(set(ids)) != len(ids):
        problems.append(f'transaction ids not unique: {ids}')
    if ids != sorted(ids) or (ids and min(ids) <= last_id):
        problems.append(f'transaction ids not increasing in request order: {ids}')
    if all(k == 'Unknown' for _, k, _, _ in case):
        d = canon.diff(before, canon.snapshot(p.mdib))
        if d:
            problems.append(f'unknown operation touched the MDIB: {d[0]}')
    if acc is not None:
        acc.state(h64(('prov', tuple(case), tuple(reports))))
    return 'ok', problems


def _prov_work(acc, case):
    acc.trace()
    acc.evals()
    acc.transition(len(case))
    status, problems = run_provider_case(case, acc)
    acc.outcome(f'provider-case:{status}')
    if problems:
        cls = problems[0].split(':')[0]
        acc.violation(f'provider/{cls}/{_what(problems[0])}', {'case': [list(map(str, c)) for c in case], 'problems': problems[:4]},
                      case={'kind': 'provider', 'case': [list(c) for c in case]})
    else:
        acc.nontrivial(h64(tuple(case)))


def _what(p):
    for tag in ('distinct final states', 'not Wait Start', 'not a single final', 'never completed', 'without error information',
                'carries report parts', 'not unique', 'not increasing', 'unknown operation', 'raising handler', 'handler result Fail',
                'completed with', 'touched the MDIB', 'request raised', 'holds exception'):
        if tag in p:
            return tag.replace(' ', '-')
    return 'other'


# ------------------------------------------------------------------ consumer side
class _Counting(Future):
    sets = 0

    def set_result(self, result):
        type(self).sets += 1
        self.set_count = getattr(self, 'set_count', 0) + 1
        return super().set_result(result)


def _mk_env():
    """A real OperationsManager, message factory/reader; helpers to build response / report messages."""
    from sdc11073 import loghelper
    from sdc11073.consumer import operations
    from sdc11073.definitions_sdc import SdcV1Definitions
    from sdc11073.pysoap.msgfactory import MessageFactory
    from sdc11073.pysoap.msgreader import MessageReader
    logger = loghelper.get_logger_adapter('verif.c09')
    reader = MessageReader(SdcV1Definitions, None, logger, validate=True)
    factory = MessageFactory(SdcV1Definitions, None, logger, validate=True)
    operations.Future = _Counting
    mgr = operations.OperationsManager(reader, 'verif')
    return mgr, reader, factory


def _state(name):
    from sdc11073.xml_types.msg_types import InvocationState
    return {'Wait': InvocationState.WAIT, 'Start': InvocationState.START, 'Fin': InvocationState.FINISHED,
            'FinMod': InvocationState.FINISHED_MOD, 'Fail': InvocationState.FAILED, 'Cnclld': InvocationState.CANCELLED,
            'CnclldMan': InvocationState.CANCELLED_MANUALLY}[name]


def _mk_response(reader, factory, tid, state):
    from sdc11073.xml_types import msg_types
    from sdc11073.xml_types.addressing_types import HeaderInformationBlock
    resp = msg_types.SetStringResponse()
    resp.InvocationInfo.TransactionId = tid
    resp.InvocationInfo.InvocationState = _state(state)
    resp.MdibVersion = 1
    resp.SequenceId = 'urn:uuid:00000000-0000-0000-0000-000000000001'
    inf = HeaderInformationBlock(action=resp.action, addr_to='http://x')
    data = factory.mk_soap_message(inf, payload=resp).serialize()
    return reader.read_received_message(data)


def _mk_report(reader, factory, tid, state, seq):
    from sdc11073.namespaces import default_ns_helper as nsh
    from sdc11073.xml_types import msg_types, pm_types
    from sdc11073.xml_types.addressing_types import HeaderInformationBlock
    rep = msg_types.OperationInvokedReport()
    rep.MdibVersion = 1 + seq
    rep.SequenceId = 'urn:uuid:00000000-0000-0000-0000-000000000001'
    part = rep.add_report_part()
    part.InvocationInfo.TransactionId = tid
    part.InvocationInfo.InvocationState = _state(state)
    part.InvocationSource = pm_types.InstanceIdentifier(nsh.SDC.namespace, extension_string='AnonymousSdcParticipant')
    part.OperationHandleRef = 'DN_SET'
    part.OperationTarget = f'target{seq}'
    inf = HeaderInformationBlock(action=rep.action, addr_to='http://x')
    data = factory.mk_soap_message(inf, payload=rep).serialize()
    return reader.read_received_message(data)


class _Client:
    def __init__(self, response):
        self.response = response

    def post_message(self, message, msg='', request_manipulator=None):  # noqa: ARG002
        return self.response


def consumer_cases(quick):
    cases = []
    finals = ['Fin', 'FinMod', 'Fail', 'Cnclld', 'CnclldMan']
    for f in finals:
        # queued: response Wait, reports Wait Start f ; every position of the response among the reports
        for pos in range(0, 4):
            cases.append(('single', 'Wait', ['Wait', 'Start', f], pos, 0))
        # direct: response f, report f (the provider sends the report before the response returns)
        for pos in range(0, 2):
            cases.append(('single', f, [f], pos, 0))
        # response Wait but only the final report exists (provider skipped Wait/Start notifications to this subscriber)
        for pos in range(0, 2):
            cases.append(('single', 'Wait', [f], pos, 0))
        cases.append(('single', 'Start', ['Start', f], 1, 0))
    # foreign reports in the look-back buffer (other transactions): 0, 47..51 entries before ours
    for filler in ([0, 1, 47, 48, 49, 50, 51] if not quick else [1, 48, 50]):
        for pos in (0, 3):
            cases.append(('single', 'Wait', ['Wait', 'Start', 'Fin'], pos, filler))
    # two overlapping transactions: all interleavings of (reports of t1, response of t1) x (reports of t2, response of t2)
    seq1 = [('rep', 1, 'Wait'), ('rep', 1, 'Start'), ('rep', 1, 'Fin')]
    seq2 = [('rep', 2, 'Wait'), ('rep', 2, 'Start'), ('rep', 2, 'Fail')]
    for p1 in range(0, 4):
        for p2 in range(0, 4):
            a = seq1[:p1] + [('resp', 1, 'Wait')] + seq1[p1:]
            b = seq2[:p2] + [('resp', 2, 'Wait')] + seq2[p2:]
            for mask in _interleavings(len(a), len(b), limit=None if not quick else 12):
                cases.append(('double', a, b, mask))
    return cases


def _interleavings(n, m, limit=None):
    out = []
    for comb in itertools.combinations(range(n + m), n):
        out.append(comb)
    if limit is not None and len(out) > limit:
        step = len(out) / limit
        out = [out[int(i * step)] for i in range(limit)]
    return out


def run_consumer_case(case):
    mgr, reader, factory = _mk_env()
    problems = []
    if case[0] == 'single':
        _, resp_state, reps, pos, filler = case
        tid = 7
        for i in range(filler):
            mgr.on_operation_invoked_report(_mk_report(reader, factory, 1000 + i, 'Fin', i))
        futs = {}
        order = [('rep', tid, s) for s in reps]
        order.insert(pos, ('resp', tid, resp_state))
        expected_parts = {tid: [s for s in reps]}
        _drive(mgr, reader, factory, order, futs, problems)
        # parts delivered before the handle completed must be in the result (a final response completes it at once)
        exp_parts = reps if resp_state not in FINAL else reps[:pos]
        _judge(futs, {tid: (resp_state, reps, exp_parts)}, problems, filler)
    else:
        _, a, b, mask = case
        order = []
        ia = ib = 0
        for i in range(len(a) + len(b)):
            if i in mask:
                order.append(a[ia])
                ia += 1
            else:
                order.append(b[ib])
                ib += 1
        futs = {}
        _drive(mgr, reader, factory, order, futs, problems)
        _judge(futs, {1: ('Wait', ['Wait', 'Start', 'Fin'], ['Wait', 'Start', 'Fin']),
                      2: ('Wait', ['Wait', 'Start', 'Fail'], ['Wait', 'Start', 'Fail'])}, problems, 0)
    return problems


def _drive(mgr, reader, factory, order, futs, problems):
    seq = 0
    done_at = {}
    futs['_done_at'] = done_at
    futs['_order'] = order
    for kind, tid, state in order:
        seq += 1
        try:
            if kind == 'rep':
                mgr.on_operation_invoked_report(_mk_report(reader, factory, tid, state, seq))
            else:
                futs[tid] = mgr.call_operation(_Client(_mk_response(reader, factory, tid, state)), None)
        except Exception as ex:  # noqa: BLE001
            problems.append(f'{kind} {state} of transaction {tid} raised {ex!r}')
        for t, f in futs.items():
            if isinstance(t, int) and f.done() and t not in done_at:
                done_at[t] = seq


def _judge(futs, expect, problems, filler):
    for tid, (resp_state, reps, exp_parts) in expect.items():
        fut = futs.get(tid)
        if fut is None:
            problems.append(f'transaction {tid}: no result handle')
            continue
        finals = ([resp_state] if resp_state in FINAL else []) or [s for s in reps if s in FINAL]
        if not fut.done():
            problems.append(f'transaction {tid}: result handle did not complete (response {resp_state}, reports {reps})')
            continue
        if getattr(fut, 'set_count', 0) != 1:
            problems.append(f'transaction {tid}: result handle completed {getattr(fut, "set_count", 0)} times')
        res = fut.result(timeout=0)
        final = res.InvocationInfo.InvocationState.value
        if final != finals[0]:
            problems.append(f'transaction {tid}: completed with {final}, final state is {finals[0]}')
        parts = [p.InvocationInfo.InvocationState.value for p in res.report_parts]
        # every part of this transaction delivered up to the moment the handle completed, once each, in order
        if resp_state in ('Fail', 'Cnclld', 'CnclldMan'):
            # a failing response completes the call at once (there may never be a report): the parts delivered up to
            # that moment
            upto = futs['_done_at'].get(tid, 10 ** 6)
            exp_parts = [st for i, (k, t, st) in enumerate(futs['_order'], 1) if k == 'rep' and t == tid and i <= upto]
        else:
            # otherwise the final state comes with a report: all parts up to and including the first final report,
            # wherever the response arrives in between
            exp_parts = []
            for k, t, st in futs['_order']:
                if k == 'rep' and t == tid:
                    exp_parts.append(st)
                    if st in FINAL:
                        break
        if filler < 48 and parts != exp_parts:
            problems.append(f'transaction {tid}: report parts {parts}, delivered before completion: {exp_parts} (response {resp_state})')
        tids = {p.InvocationInfo.TransactionId for p in res.report_parts}
        if tids - {tid}:
            problems.append(f'transaction {tid}: result contains parts of other transactions {sorted(tids)}')


def _cons_work(acc, case):
    acc.trace()
    acc.evals()
    acc.transition(4 if case[0] == 'single' else 8)
    problems = run_consumer_case(case)
    acc.state(h64(('cons', repr(case))))
    if problems:
        if case[0] == 'single':
            key = f'response={case[1]}/reports={"-".join(case[2])}/response-at={case[3]}/buffered-foreign={case[4]}'
        else:
            key = 'two-transactions/' + _what_c(problems[0])
        acc.violation(f'consumer/{_what_c(problems[0])}/{key}', {'case': repr(case)[:300], 'problems': problems[:3]},
                      case={'kind': 'consumer', 'case': _jsonable_case(case)})
    else:
        acc.nontrivial(h64(repr(case)))


def _what_c(p):
    for tag in ('did not complete', 'completed 0 times', 'completed 2 times', 'completed with', 'report parts', 'other transactions',
                'raised', 'no result handle'):
        if tag in p:
            return tag.replace(' ', '-')
    return 'other'


def _jsonable_case(case):
    return [list(x) if isinstance(x, tuple) else x for x in case]


def provider_cases(quick):
    kinds = list(OPS)
    singles = []
    for kind in kinds:
        for delayed in (False, True):
            for mode in HANDLERS:
                singles.append((0, kind, delayed, mode))
    for kind in (kinds[:2] if quick else kinds):
        for delayed in (False, True):
            for mode in RAISE_TEXTS:
                if mode != 'raise':
                    singles.append((0, kind, delayed, mode))
    cases = [[s] for s in singles] + [[(0, 'Unknown', False, 'real')], [(1, 'Unknown', True, 'real'), (0, 'Unknown', True, 'real')]]
    pair_kinds = ['SetString', 'Activate'] if quick else kinds[:4]
    pair_modes = ['ok', 'fail', 'raise'] if quick else ['real', 'ok', 'ok-mod', 'fail', 'raise']
    for (k1, k2) in itertools.product(pair_kinds, repeat=2):
        for (d1, d2) in itertools.product((False, True), repeat=2):
            for (m1, m2) in itertools.product(pair_modes, repeat=2):
                if k1 == k2 and m1 != m2:
                    continue  # one operation object has one handler
                cases.append([(0, k1, d1, m1), (1, k2, d2, m2)])
    # invoke / un-register / invoke again: lookups must follow the registry (an operation object cannot be registered twice)
    for k in (kinds[:2] if quick else kinds):
        for delayed in (False, True):
            cases.append([(0, k, delayed, 'ok'), (0, f'Unregister:{k}', delayed, 'ok'), (0, k, delayed, 'ok')])
            cases.append([(0, f'Unregister:{k}', delayed, 'ok'), (0, k, delayed, 'ok')])
            other = kinds[(kinds.index(k) + 1) % len(kinds)]
            cases.append([(0, k, delayed, 'ok'), (1, other, delayed, 'ok'), (0, f'Unregister:{k}', delayed, 'ok'), (1, k, delayed, 'ok'),
                          (0, other, delayed, 'ok')])
    # bursts that fill the operation queue (capacity 10) before the worker gets to run
    for n in ((10, 12) if quick else (9, 10, 11, 12, 13)):
        cases.append([(i % 2, 'SetString', True, 'ok') for i in range(n)])
    if not quick:
        cases.append([(0, 'Activate', True, 'raise') for _ in range(12)])
    if not quick:
        for k in kinds[:3]:
            cases.append([(0, k, True, 'ok'), (1, k, True, 'ok'), (0, k, False, 'ok')])
            cases.append([(0, k, True, 'raise'), (1, 'Unknown', True, 'real'), (1, k, True, 'raise')])
    return cases


def run_restart_case(case):
    """Session 1: one operation against provider instance 1. The provider is replaced by a new instance at the same address
    (it re-uses transaction id 1), the consumer calls restart() (its documented reaction), session 2: one operation whose
    handler behaves differently. The second result handle must complete with the states of ITS transaction."""
    first_mode, second_mode, delayed = case
    w = world.World()
    p1 = w.mk_provider()
    c = w.mk_consumer(p1)
    w.mk_consumer_mdib(c)
    handle = OPS['SetString']
    _install_handler(p1, handle, first_mode, delayed)
    f1 = _send(c, p1, 'SetString', handle)
    world.drain_operations(p1)
    if not f1.done():
        return ['first call did not complete']
    p2 = w.mk_provider(epr=p1._epr)
    _install_handler(p2, handle, second_mode, delayed)
    try:
        c.restart()
    except Exception as ex:  # noqa: BLE001
        return [f'consumer restart raised {ex!r}'[:200]]
    f2 = _send(c, p2, 'SetString', handle)
    world.drain_operations(p2)
    if not f2.done():
        return ['second call: result handle never completed']
    r2 = f2.result(timeout=0)
    want_final = {'ok': 'Fin', 'ok-mod': 'FinMod', 'fail': 'Fail', 'raise': 'Fail'}[second_mode]
    want_parts = (['Wait', 'Start'] if delayed else []) + [want_final]
    got_final = r2.InvocationInfo.InvocationState.value
    got_parts = [pt.InvocationInfo.InvocationState.value for pt in r2.report_parts]
    problems = []
    if got_final != want_final:
        problems.append(f'second call after restart completed with {got_final}, its transaction ended with {want_final} '
                        f'(first session: handler {first_mode})')
    elif got_parts != want_parts:
        problems.append(f'second call after restart carries report parts {got_parts}, its transaction had {want_parts}')
    w.close()
    return problems


def _restart_work(acc, case):
    acc.trace()
    acc.evals()
    acc.transition(4)
    acc.state(h64(('restart', case)))
    problems = run_restart_case(case)
    acc.outcome('restart-case:' + ('ok' if not problems else 'bad'))
    if problems:
        acc.violation(f'consumer/after-restart/{case[0]}>{case[1]}/{"queued" if case[2] else "direct"}', {'problems': problems},
                      case={'kind': 'restart', 'case': list(case)})
    else:
        acc.nontrivial(h64(('restart', case)))


def run(ctx):
    pc = provider_cases(ctx.quick)
    cc = consumer_cases(ctx.quick)
    ctx.rule = ('provider: %d request sequences (5 operation kinds x direct/queued x handler {real, ok, ok-with-modification, returns '
                'Fail, raises}, unknown operation, pairs from two consumers) sent through the real consumer clients, executed by the '
                'real SCO registry / worker loop body; consumer: %d orderings of the response with the reports of its transaction '
                '(every position, all final states, foreign reports filling the 50-entry look-back buffer, two overlapping '
                'transactions in all interleavings) on the real OperationsManager. distinct_nontrivial = cases without violation'
                % (len(pc), len(cc)))
    ctx.pmap(_prov_work, ctx.rotate(pc), chunksize=2)
    ctx.pmap(_cons_work, ctx.rotate(cc), chunksize=8)
    rc = [(a, b, d) for a in ('ok', 'raise') for b in ('ok', 'ok-mod', 'fail', 'raise') for d in (False, True)]
    ctx.pmap(_restart_work, rc, chunksize=1)
    ctx.note('restart_cases', len(rc))
    from mcx.checks import c09_sched
    c09_sched.run(ctx)      # (c) concurrent requests under the schedule explorer: transaction ids unique
    ctx.note('bounds', {'provider_cases': len(pc), 'consumer_cases': len(cc)})
    ctx.sample({'provider_case': [list(map(str, c)) for c in pc[37]]})
    ctx.sample({'consumer_case': repr(cc[5])})
    ctx.assumptions.append('the consumer-side rendez-vous runs entirely under one lock, so every thread interleaving at lock '
                           'granularity equals one sequential ordering of the critical sections; those orderings are enumerated '
                           'exhaustively (a schedule explorer would add nothing at this granularity)')
    ctx.assumptions.append('a queue-full SOAP fault (more than 10 pending operations) is outside the alphabet')


def replay(ctx, case):
    if case['kind'] == 'sched':
        from mcx.checks import c09_sched
        return c09_sched.replay(ctx, case)
    if case['kind'] == 'restart':
        problems = run_restart_case(tuple(case['case']))
    elif case['kind'] == 'provider':
        status, problems = run_provider_case([tuple(c) for c in case['case']])
    else:
        c = case['case']
        c = tuple(tuple(x) if isinstance(x, list) and x and not isinstance(x[0], list) else x for x in c)
        if c[0] == 'double':
            c = ('double', [tuple(e) for e in case['case'][1]], [tuple(e) for e in case['case'][2]], tuple(case['case'][3]))
        else:
            c = (c[0], c[1], list(case['case'][2]), c[3], c[4])
        problems = run_consumer_case(c)
    for p in problems[:3]:
        ctx.violation(f'{case["kind"]}/{p[:60]}', p)
    return {'problems': problems[:4]}
