"""C03 - transactions are atomic; data handed out is isolated from the MDIB (fault enumeration + reflection)."""
from __future__ import annotations

import enum
from decimal import Decimal

from mcx import alphabet as A
from mcx import canon, mdibwalk, world
from mcx.runner import h64

PROPERTY = 'C03'
TECHNIQUE = ('exhaustive crash-point enumeration (an exception after every prefix of every transaction body, in the '
             'pre-commit hook and in commit paths the API can make fail) and exhaustive enumeration of nested attribute '
             'paths of every object handed out, against full canonical snapshots of the real ProviderMdib')

PRE = ['metric(N1,1)', 'patient-new(A)', 'alert-system+cond', 'update-alert-source', 'rt(1,2,3)', 'string(a)',
       'create-metric', 'update-descr(NEW)', 'delete(NEW)']  # the last three leave a removed handle with saved versions


class Boom(Exception):
    pass


# ------------------------------------------------------------------ transaction bodies (lists of API calls)
def _mv(st, v):
    if st.MetricValue is None:
        st.mk_metric_value()
    st.MetricValue.Value = v


def _pat_handle(p):
    sts = sorted(p.mdib.context_states.descriptor_handle.get(A.PAT, []), key=lambda s: s.Handle)
    return sts[0].Handle


BODIES = {
    'metric': ('metric_state_transaction', [
        lambda p, tr: _mv(tr.get_state(A.NUM1), Decimal(91)),
        lambda p, tr: _mv(tr.get_state(A.NUM2), Decimal(92)),
        lambda p, tr: setattr(tr.get_state(A.STR1).MetricValue, 'Value', 'zz'),
    ]),
    'metric-nested': ('metric_state_transaction', [
        lambda p, tr: setattr(tr.get_state(A.NUM1).MetricValue.MetricQuality, 'Validity', A._pm().MeasurementValidity.INVALID),
        lambda p, tr: tr.get_state(A.NUM2),
    ]),
    'metric-entity': ('metric_state_transaction', [
        lambda p, tr: tr.write_entity(_ent_metric(p, A.NUM1, 93)),
        lambda p, tr: tr.write_entity(_ent_metric(p, A.NUM2, 94)),
    ]),
    'alert': ('alert_state_transaction', [
        lambda p, tr: setattr(tr.get_state(A.AC), 'Presence', False),
        lambda p, tr: setattr(tr.get_state(A.AS), 'Presence', A._pm().AlertSignalPresence.ON),
        lambda p, tr: tr.get_state(A.ASY).PresentPhysiologicalAlarmConditions.append('x'),
    ]),
    'component': ('component_state_transaction', [
        lambda p, tr: setattr(tr.get_state(A.VMD), 'OperatingHours', 99),
        lambda p, tr: setattr(tr.get_state(A.CH), 'OperatingCycles', 98),
    ]),
    'operational': ('operational_state_transaction', [
        lambda p, tr: setattr(tr.get_state(A.OP), 'OperatingMode', A._pm().OperatingMode.NA),
    ]),
    'rt': ('rt_sample_state_transaction', [
        lambda p, tr: tr.get_state(A.RT).MetricValue.Samples.append(Decimal(77)),
    ]),
    'context': ('context_state_transaction', [
        lambda p, tr: tr.disassociate_all(A.PAT),
        lambda p, tr: setattr(tr.mk_context_state(A.PAT, set_associated=True).CoreData, 'Givenname', 'Q'),
        lambda p, tr: setattr(tr.mk_context_state(A.LOC, 'loc.handle.new').LocationDetail, 'PoC', 'P9'),
    ]),
    'context-update': ('context_state_transaction', [
        lambda p, tr: setattr(tr.get_context_state(_pat_handle(p)).CoreData, 'Givenname', 'R'),
        lambda p, tr: tr.get_context_state(_pat_handle(p) if False else sorted(
            s.Handle for s in p.mdib.context_states.descriptor_handle.get(A.PAT, []))[-1]).Identification.append(
            A._pm().InstanceIdentifier('urn:x', extension_string='y')) if len(
            p.mdib.context_states.descriptor_handle.get(A.PAT, [])) > 1 else None,
    ]),
    'descriptor': ('descriptor_transaction', [
        lambda p, tr: setattr(tr.get_descriptor(A.CH), 'SafetyClassification', A._pm().SafetyClassification.MED_C),
        lambda p, tr: tr.add_descriptor(A._mk_metric_descriptor(p, A.NEW, A.CH),
                                        state_container=p.mdib.data_model.mk_state_container(
                                            A._mk_metric_descriptor(p, A.NEW, A.CH))),
        lambda p, tr: tr.remove_descriptor(A.NUM2),
    ]),
    'descriptor-nested': ('descriptor_transaction', [
        lambda p, tr: setattr(tr.get_descriptor(A.NUM1).Unit, 'Code', '999'),
        lambda p, tr: _mv(tr.get_state(A.NUM1), Decimal(95)),
        lambda p, tr: tr.get_descriptor(A.AC).Source.append('zz'),
    ]),
    'descriptor-re-add-removed-handle': ('descriptor_transaction', [
        lambda p, tr: tr.add_descriptor(A._mk_metric_descriptor(p, A.NEW, A.CH),
                                        state_container=p.mdib.data_model.mk_state_container(
                                            A._mk_metric_descriptor(p, A.NEW, A.CH))),
        lambda p, tr: setattr(tr.get_descriptor(A.CH), 'SafetyClassification', A._pm().SafetyClassification.MED_C),
    ]),
    'descriptor-re-add-removed-handle-entity': ('descriptor_transaction', [
        lambda p, tr: tr.write_entity(_new_entity(p)),
    ]),
    'descriptor-entity': ('descriptor_transaction', [
        lambda p, tr: tr.write_entity(_ent_descr(p, A.CH)),
        lambda p, tr: tr.remove_entity(p.mdib.entities.by_handle(A.ENUM1)),
        lambda p, tr: tr.write_entity(_ent_descr(p, A.PAT)),
    ]),
}


def _ent_metric(p, h, v):
    ent = p.mdib.entities.by_handle(h)
    _mv(ent.state, Decimal(v))
    return ent


def _new_entity(p):
    ent = p.mdib.entities.new_entity(A._names().NumericMetricDescriptor, A.NEW, A.CH)
    ent.descriptor.Type = A._pm().CodedValue('12345')
    ent.descriptor.Unit = A._pm().CodedValue('262656')
    ent.descriptor.Resolution = Decimal('0.1')
    ent.descriptor.MetricCategory = A._pm().MetricCategory.MEASUREMENT
    ent.descriptor.MetricAvailability = A._pm().MetricAvailability.CONTINUOUS
    return ent


def _ent_descr(p, h):
    ent = p.mdib.entities.by_handle(h)
    ent.descriptor.SafetyClassification = A._pm().SafetyClassification.MED_C
    return ent


# ------------------------------------------------------------------ calls the API must reject
def _rej_context_delete_via_entity(p, tr):
    ent = p.mdib.entities.by_handle(A.PAT)
    h = sorted(ent.states)[0]
    del ent.states[h]
    tr.write_entity(ent, [h])


REJECTS = [
    # (name, tx kind, call, exception is raised by the call itself (True) or may be raised at commit (False))
    ('metric:get_state(alert)', 'metric_state_transaction', lambda p, tr: tr.get_state(A.AC)),
    ('metric:get_state(rt)', 'metric_state_transaction', lambda p, tr: tr.get_state(A.RT)),
    ('metric:get_state-twice', 'metric_state_transaction', lambda p, tr: (tr.get_state(A.NUM1), tr.get_state(A.NUM1))),
    ('metric:get_state(unknown)', 'metric_state_transaction', lambda p, tr: tr.get_state('nope')),
    ('metric:get_state(empty)', 'metric_state_transaction', lambda p, tr: tr.get_state('')),
    ('metric:write_entity(context)', 'metric_state_transaction', lambda p, tr: tr.write_entity(p.mdib.entities.by_handle(A.PAT))),
    ('metric:write_entity(alert)', 'metric_state_transaction', lambda p, tr: tr.write_entity(p.mdib.entities.by_handle(A.AC))),
    ('metric:write_entities(mixed)', 'metric_state_transaction', lambda p, tr: tr.write_entities(
        [_ent_metric(p, A.NUM2, 96), p.mdib.entities.by_handle(A.AC)])),
    ('alert:get_state(metric)', 'alert_state_transaction', lambda p, tr: tr.get_state(A.NUM1)),
    ('component:get_state(metric)', 'component_state_transaction', lambda p, tr: tr.get_state(A.NUM1)),
    ('operational:get_state(metric)', 'operational_state_transaction', lambda p, tr: tr.get_state(A.NUM1)),
    ('rt:get_state(metric)', 'rt_sample_state_transaction', lambda p, tr: tr.get_state(A.NUM1)),
    ('context:get_context_state(unknown)', 'context_state_transaction', lambda p, tr: tr.get_context_state('nope')),
    ('context:get_context_state-twice', 'context_state_transaction',
     lambda p, tr: (tr.get_context_state(_pat_handle(p)), tr.get_context_state(_pat_handle(p)))),
    ('context:mk_context_state(existing-handle)', 'context_state_transaction',
     lambda p, tr: tr.mk_context_state(A.PAT, _pat_handle(p))),
    ('context:mk_context_state(metric-descriptor)', 'context_state_transaction', lambda p, tr: tr.mk_context_state(A.NUM1)),
    ('context:mk_context_state(unknown-descriptor)', 'context_state_transaction', lambda p, tr: tr.mk_context_state('nope')),
    ('context:add_state(metric-state)', 'context_state_transaction',
     lambda p, tr: tr.add_state(p.mdib.states.descriptor_handle.get_one(A.NUM1).mk_copy())),
    ('context:write_entity(unknown-handle)', 'context_state_transaction',
     lambda p, tr: tr.write_entity(p.mdib.entities.by_handle(A.PAT), ['nope'])),
    ('descriptor:get_descriptor-twice', 'descriptor_transaction', lambda p, tr: (tr.get_descriptor(A.CH), tr.get_descriptor(A.CH))),
    ('descriptor:get_descriptor(unknown)', 'descriptor_transaction', lambda p, tr: tr.get_descriptor('nope')),
    ('descriptor:remove(unknown)', 'descriptor_transaction', lambda p, tr: tr.remove_descriptor('nope')),
    ('descriptor:remove-then-get', 'descriptor_transaction', lambda p, tr: (tr.remove_descriptor(A.NUM2), tr.get_descriptor(A.NUM2))),
    ('descriptor:add(existing)', 'descriptor_transaction', lambda p, tr: tr.add_descriptor(A._mk_metric_descriptor(p, A.NUM1, A.CH))),
    ('descriptor:get_state-without-descriptor', 'descriptor_transaction', lambda p, tr: tr.get_state(A.NUM1)),
    ('descriptor:get_state(context)', 'descriptor_transaction', lambda p, tr: (tr.get_descriptor(A.PAT), tr.get_state(A.PAT))),
    ('descriptor:add_state-without-descriptor', 'descriptor_transaction',
     lambda p, tr: tr.add_state(p.mdib.states.descriptor_handle.get_one(A.NUM1).mk_copy())),
    ('descriptor:add_state(wrong-descriptor)', 'descriptor_transaction',
     lambda p, tr: tr.add_descriptor(A._mk_metric_descriptor(p, A.NEW, A.CH),
                                     state_container=p.mdib.states.descriptor_handle.get_one(A.NUM1).mk_copy())),
    ('descriptor:re-add-removed-handle-with-wrong-state', 'descriptor_transaction',
     lambda p, tr: tr.add_descriptor(A._mk_metric_descriptor(p, A.NEW, A.CH),
                                     state_container=p.mdib.states.descriptor_handle.get_one(A.NUM1).mk_copy())),
    ('descriptor:write_entity-twice', 'descriptor_transaction', lambda p, tr: (tr.write_entity(_ent_descr(p, A.CH)), tr.write_entity(_ent_descr(p, A.CH)))),
    ('context:write_entity(new+unknown-handle)', 'context_state_transaction', lambda p, tr: _write_new_and_unknown(p, tr)),
    ('context:write_entity(changed+unknown-handle)', 'context_state_transaction', lambda p, tr: _write_changed_and_unknown(p, tr)),
    ('descriptor:add_descriptor(state-of-other-descriptor)+swallow', 'descriptor_transaction',
     lambda p, tr: tr.add_descriptor(A._mk_metric_descriptor(p, A.NEW, A.CH),
                                     state_container=p.mdib.states.descriptor_handle.get_one(A.NUM2).mk_copy())),
]
# rejected calls that consist of one API call: besides letting the exception abort the transaction, the application may
# catch it inside the transaction body and carry on - then the rejected call must have had no effect at all on what is
# committed (reference: the same transaction without the call)
MULTI_CALL_REJECTS = {'metric:get_state-twice', 'context:get_context_state-twice', 'descriptor:get_descriptor-twice',
                      'descriptor:remove-then-get', 'descriptor:get_state(context)', 'descriptor:write_entity-twice'}


def _write_new_and_unknown(p, tr):
    ent = p.mdib.entities.by_handle(A.PAT)
    st = ent.new_state('verif.new.ctx')
    st.CoreData.Givenname = 'New'
    tr.write_entity(ent, ['verif.new.ctx', 'nope'])


def _write_changed_and_unknown(p, tr):
    ent = p.mdib.entities.by_handle(A.PAT)
    h = sorted(ent.states)[0]
    ent.states[h].CoreData.Givenname = 'Changed'
    tr.write_entity(ent, [h, 'nope'])

# calls that are accepted by the API; whatever happens, the transaction must be all-or-nothing
def _loc_handle(p):
    hs = sorted(s.Handle for s in p.mdib.context_states.descriptor_handle.get(A.LOC, []))
    if not hs:
        raise A.Disabled('no location state')
    return hs[0]


def _foreign_handle_via_entity(p, tr, descriptor_tx):
    """A new patient context state that carries the handle of an existing location context state (entity interface)."""
    ent = p.mdib.entities.by_handle(A.PAT)
    st = ent.new_state(_loc_handle(p))
    st.CoreData.Givenname = 'Clash'
    if descriptor_tx:
        tr.write_entity(ent)
    else:
        tr.write_entity(ent, [st.Handle])


def _descriptor_copy_with_changed_handle(p, tr):
    d = tr.get_descriptor(A.NUM1)
    d.SafetyClassification = A._pm().SafetyClassification.MED_A
    d2 = tr.get_descriptor(A.NUM2)
    d2.Handle = 'renamed.by.application'


ALL_OR_NOTHING = [
    ('descriptor:write_entity(new-context-state-with-handle-of-another-descriptor)', 'descriptor_transaction',
     lambda p, tr: _foreign_handle_via_entity(p, tr, True)),
    ('context:write_entity(new-context-state-with-handle-of-another-descriptor)', 'context_state_transaction',
     lambda p, tr: _foreign_handle_via_entity(p, tr, False)),
    ('context:mk_context_state(handle-of-another-descriptor)', 'context_state_transaction',
     lambda p, tr: tr.mk_context_state(A.PAT, _loc_handle(p))),
    ('descriptor:get_descriptor-then-change-handle-of-the-copy', 'descriptor_transaction', _descriptor_copy_with_changed_handle),
    ('descriptor:add_state(context-state-handle-that-exists-in-mdib)', 'descriptor_transaction',
     lambda p, tr: (tr.get_descriptor(A.PAT), tr.add_state(_dup_context_state(p)))),
    ('descriptor:add_state(state-that-exists-in-mdib)', 'descriptor_transaction',
     lambda p, tr: (tr.get_descriptor(A.NUM1), tr.add_state(p.mdib.states.descriptor_handle.get_one(A.NUM1).mk_copy()))),
    ('context:write_entity(state-deleted-from-entity)', 'context_state_transaction', _rej_context_delete_via_entity),
    ('context:add_state(duplicate-handle)', 'context_state_transaction',
     lambda p, tr: tr.add_state(_dup_context_state(p))),
    ('descriptor:add_descriptor-without-parent', 'descriptor_transaction',
     lambda p, tr: tr.add_descriptor(A._mk_metric_descriptor(p, A.NEW, 'no.such.parent'))),
]


def _mk_ctx_variant(which, adjust, assoc):
    def call(p, tr):
        handle = {'none': None, 'existing': _pat_handle(p), 'new': 'verif.new.ctx'}[which]
        tr.mk_context_state(A.PAT, handle, adjust_state_version=adjust, set_associated=assoc)
    return call


def _add_state_variant(dup, adjust):
    def call(p, tr):
        st = _dup_context_state(p)
        if not dup:
            st.Handle = 'verif.new.ctx'
        tr.add_state(st, adjust_state_version=adjust)
    return call


# every keyword combination of the two calls that create context states
for _which in ('none', 'existing', 'new'):
    for _adjust in (True, False):
        for _assoc in (False, True):
            ALL_OR_NOTHING.append((f'context:mk_context_state(handle={_which},adjust={_adjust},associated={_assoc})',
                                   'context_state_transaction', _mk_ctx_variant(_which, _adjust, _assoc)))
for _dup in (True, False):
    for _adjust in (True, False):
        ALL_OR_NOTHING.append((f'context:add_state(duplicate={_dup},adjust={_adjust})', 'context_state_transaction',
                               _add_state_variant(_dup, _adjust)))


def _dup_context_state(p):
    old = p.mdib.context_states.handle.get_one(_pat_handle(p))
    st = p.mdib.data_model.mk_state_container(p.mdib.descriptions.handle.get_one(A.PAT))
    st.Handle = old.Handle
    return st


# ------------------------------------------------------------------ helpers
def _periodic_store(p):
    """Canonical content of what the provider retains for its periodic reports (published content of earlier commits)."""
    handler = p._periodic_reports_handler
    out = []
    for attr in sorted(a for a in vars(handler) if a.startswith('_periodic_') and a.endswith('reports')):
        for entry in getattr(handler, attr, []):
            out.append((attr, getattr(entry, 'mdib_version', None), tuple(canon.canon_obj(st) for st in getattr(entry, 'states', []))))
    return out


def _build(periodic=False):
    walk = mdibwalk.Walk(with_consumer=False, provider_kwargs={'periodic_reports_interval': 1.0} if periodic else None)
    for name in PRE:
        A.apply(walk.provider, name)
    world.ENV.now += 5
    return walk


def _snap(p):
    s = canon.snapshot(p.mdib)
    return s


def _same(before, after, p):
    d = canon.diff(before, after)
    d += [f'scan: {x}' for x in canon.mdib_scan(p.mdib)]
    return d


def _sig(d):
    first = d[0]
    return first.split(' differs')[0][:100]


# ------------------------------------------------------------------ (A) crash points
def crash_cases():
    cases = []
    for name, (_kind, calls) in BODIES.items():
        n = len(calls)
        import itertools
        for k in range(1, n + 1):
            for combo in itertools.permutations(range(n), k):
                if combo != tuple(sorted(combo)) and k > 2:
                    continue
                cases.append(('crash-body', name, list(combo)))
        for combo in ([0], list(range(n))):
            cases.append(('crash-precommit', name, combo))
    return cases


def run_crash(case):
    mode, name, combo = case
    walk = _build()
    p = walk.provider
    kind, calls = BODIES[name]
    before = _snap(p)
    wire0 = len(walk.world.wire.log)
    fired = []
    from sdc11073 import observableproperties as op
    op.strongbind(p.mdib, transaction=fired.append)
    orig_handler = p.mdib.pre_commit_handler
    if mode == 'crash-precommit':
        # the role providers' own pre-commit handler (e.g. the alert role provider, which adapts alert signals) runs first:
        # whatever it prepared must be undone as well when a later handler vetoes the transaction
        def handler(mdib, tr):
            if callable(orig_handler):
                orig_handler(mdib, tr)
            raise Boom('pre-commit')
        p.mdib.pre_commit_handler = handler
    raised = None
    try:
        with getattr(p.mdib, kind)() as tr:
            for i in combo:
                calls[i](p, tr)
            if mode == 'crash-body':
                raise Boom('application code')
    except Boom:
        raised = 'Boom'
    except Exception as ex:  # noqa: BLE001  the body itself was rejected (e.g. duplicate get): also an abort
        raised = type(ex).__name__
    finally:
        p.mdib.pre_commit_handler = orig_handler
    after = _snap(p)
    d = _same(before, after, p)
    if fired:
        d.append('transaction observable fired for an aborted transaction')
    if len(walk.world.wire.log) != wire0:
        d.append('a message was sent for an aborted transaction')
    return raised, d, before


# ------------------------------------------------------------------ (B) rejected calls / all-or-nothing
def run_reject_swallowed(case):
    """The rejected call's exception is caught inside the transaction body, the transaction then ends normally: what is
    committed must equal what the same transaction commits without the call."""
    _mode, idx, with_prior, _table = case
    name, kind, call = REJECTS[idx]
    raised = None
    snaps = []
    for with_call in (False, True):
        walk = _build()
        p = walk.provider
        with getattr(p.mdib, kind)() as tr:
            if with_prior:
                PRIOR[kind](p, tr)
            if with_call:
                try:
                    call(p, tr)
                except Exception as ex:  # noqa: BLE001
                    raised = type(ex).__name__
        snaps.append((_snap(p), p, len(walk._tx)))
    problems = []
    if raised is None:
        problems.append('call was not rejected')
    else:
        problems = ['rejected call left its mark on the commit: ' + x for x in canon.diff(snaps[0][0], snaps[1][0])]
        problems += [f'scan: {x}' for x in canon.mdib_scan(snaps[1][1].mdib)]
        if snaps[0][2] != snaps[1][2]:
            problems.append(f'number of committed transactions differs: {snaps[0][2]} without the call, {snaps[1][2]} with it')
    return name, raised, problems


def run_reject(case):
    _mode, idx, with_prior, table = case
    if table == 'reject-swallowed':
        return run_reject_swallowed(case)
    name, kind, call = (REJECTS if table == 'reject' else ALL_OR_NOTHING)[idx]
    walk = _build()
    p = walk.provider
    before = _snap(p)
    fired = []
    from sdc11073 import observableproperties as op
    op.strongbind(p.mdib, transaction=fired.append)
    raised = None
    try:
        with getattr(p.mdib, kind)() as tr:
            if with_prior:
                PRIOR[kind](p, tr)
            call(p, tr)
    except Exception as ex:  # noqa: BLE001
        raised = type(ex).__name__
    after = _snap(p)
    problems = []
    if raised is None:
        if table == 'reject':
            problems.append('call was not rejected')
        else:
            # accepted: then it must be a complete, consistent commit
            if after['mdib_version'] != before['mdib_version'] + 1:
                problems.append('accepted but MdibVersion not +1')
            problems += [f'scan: {x}' for x in canon.mdib_scan(p.mdib)]
            problems += [f'referential: {x}' for x in canon.referential(p.mdib)]
    else:
        problems = _same(before, after, p)
        if fired:
            problems.append('transaction observable fired although the transaction raised')
    return name, raised, problems


PRIOR = {
    'metric_state_transaction': lambda p, tr: _mv(tr.get_state(A.NUM2), Decimal(55)),
    'alert_state_transaction': lambda p, tr: setattr(tr.get_state(A.AS), 'Presence', A._pm().AlertSignalPresence.ON),
    'component_state_transaction': lambda p, tr: setattr(tr.get_state(A.CH), 'OperatingHours', 5),
    'operational_state_transaction': lambda p, tr: setattr(tr.get_state(A.OP), 'OperatingMode', A._pm().OperatingMode.NA),
    'rt_sample_state_transaction': lambda p, tr: tr.get_state(A.RT).MetricValue.Samples.append(Decimal(5)),
    'context_state_transaction': lambda p, tr: setattr(tr.mk_context_state(A.PAT).CoreData, 'Givenname', 'prior'),
    'descriptor_transaction': lambda p, tr: setattr(tr.get_descriptor(A.VMD), 'SafetyClassification',
                                                    A._pm().SafetyClassification.MED_C),
}


# ------------------------------------------------------------------ (C) isolation by reflection
def _is_struct(v):
    return hasattr(v, 'sorted_container_properties')


def paths_of(obj, depth, prefix=()):
    """All (path, kind) below obj: path = tuple of attribute names / list indices."""
    out = []
    for name, _prop in obj.sorted_container_properties():
        try:
            v = getattr(obj, name)
        except Exception:  # noqa: BLE001
            continue
        p = prefix + (name,)
        if _is_struct(v):
            out.append((p, 'struct'))
            if depth > 1:
                out.extend(paths_of(v, depth - 1, p))
        elif isinstance(v, list):
            out.append((p, 'list'))
            for i, m in enumerate(v[:2]):
                if _is_struct(m) and depth > 1:
                    out.extend(paths_of(m, depth - 1, p + (i,)))
        elif v is not None:
            out.append((p, 'scalar'))
    return out


def _resolve(obj, path):
    for el in path:
        obj = obj[el] if isinstance(el, int) else getattr(obj, el)
    return obj


def mutate(obj, path, kind):
    """Write a sentinel at path (nested writes only make sense for len(path) >= 2 or for in-place list edits)."""
    parent = _resolve(obj, path[:-1])
    name = path[-1]
    cur = getattr(parent, name)
    if kind == 'list':
        if cur and not _is_struct(cur[0]):
            cur.append(cur[0])
        elif cur:
            cur.pop()
        elif type(cur).__name__ == 'ExtensionLocalValue':
            from lxml import etree
            cur.append(etree.Element('{urn:verif}sentinel'))
        else:
            cur.append('SENTINEL')  # in-place edit of an empty list (never serialised: the write must stay private)
        return True
    if kind == 'struct':
        return False
    new = _sentinel(cur)
    if new is None:
        return False
    try:
        setattr(parent, name, new)
    except Exception:  # noqa: BLE001  strict type checks
        return False
    return True


def _sentinel(cur):
    if isinstance(cur, bool):
        return not cur
    if isinstance(cur, enum.Enum):
        members = list(type(cur))
        return members[(members.index(cur) + 1) % len(members)] if len(members) > 1 else None
    if isinstance(cur, int):
        return cur + 987
    if isinstance(cur, Decimal):
        return cur + Decimal(987)
    if isinstance(cur, float):
        return cur + 987.0
    if isinstance(cur, str):
        return cur + 'SENTINEL'
    return None


GETTERS = {
    # name: (tx kind or None, function(p, tr) -> list of objects handed out)
    'tr.get_state(metric)': ('metric_state_transaction', lambda p, tr: [tr.get_state(A.NUM1)]),
    'tr.get_state(string)': ('metric_state_transaction', lambda p, tr: [tr.get_state(A.STR1)]),
    'tr.get_state(rt)': ('rt_sample_state_transaction', lambda p, tr: [tr.get_state(A.RT)]),
    'tr.get_state(alert-condition)': ('alert_state_transaction', lambda p, tr: [tr.get_state(A.AC)]),
    'tr.get_state(alert-system)': ('alert_state_transaction', lambda p, tr: [tr.get_state(A.ASY)]),
    'tr.get_state(component)': ('component_state_transaction', lambda p, tr: [tr.get_state(A.VMD)]),
    'tr.get_state(operation)': ('operational_state_transaction', lambda p, tr: [tr.get_state(A.OP)]),
    'tr.get_context_state(patient)': ('context_state_transaction', lambda p, tr: [tr.get_context_state(_pat_handle(p))]),
    'tr.get_descriptor(metric)': ('descriptor_transaction', lambda p, tr: [tr.get_descriptor(A.NUM1)]),
    'tr.get_descriptor(alert-condition)': ('descriptor_transaction', lambda p, tr: [tr.get_descriptor(A.AC)]),
    'tr.get_descriptor+get_state(metric)': ('descriptor_transaction', lambda p, tr: [tr.get_descriptor(A.NUM1), tr.get_state(A.NUM1)][1:]),
}
ENTITY_GETTERS = {
    'entities.by_handle(metric)': lambda p: _flat(p.mdib.entities.by_handle(A.NUM1)),
    'entities.by_handle(patient)': lambda p: _flat(p.mdib.entities.by_handle(A.PAT)),
    'entities.by_handle(alert-condition)': lambda p: _flat(p.mdib.entities.by_handle(A.AC)),
    'entities.by_node_type(NumericMetric)': lambda p: _flat(sorted(
        p.mdib.entities.by_node_type(A._names().NumericMetricDescriptor), key=lambda e: e.handle)[0]),
    'entities.by_parent_handle(ch0)': lambda p: _flat(sorted(p.mdib.entities.by_parent_handle(A.CH), key=lambda e: e.handle)[0]),
    'entities.items()': lambda p: _flat(dict(p.mdib.entities.items())[A.STR1]),
    # an entity that was refreshed from the MDIB (after a later commit made it stale) is still a private copy
    'entities.by_handle(metric).update()': lambda p: _flat(_refreshed(p, A.NUM1, 'metric(N1,2)')),
    'entities.by_handle(patient).update()': lambda p: _flat(_refreshed(p, A.PAT, 'patient-update-first(X)')),
    'entities.by_handle(alert-condition).update()': lambda p: _flat(_refreshed(p, A.AC, 'alert-cond(on)')),
    'entities.by_handle(patient).update()+new-state': lambda p: _flat(_refreshed(p, A.PAT, 'patient-new(B)')),
}


def _refreshed(p, handle, event):
    ent = p.mdib.entities.by_handle(handle)
    try:
        A.apply(p, event)
    except A.Disabled:
        pass
    ent.update()
    return ent


def _flat(ent):
    if ent.is_multi_state:
        return [ent.descriptor] + [ent.states[h] for h in sorted(ent.states)]
    return [ent.descriptor, ent.state]


RESULT_TX = {
    'result(metric tx)': lambda p: A.apply(p, 'metric(N1,2)'),
    'result(alert tx)': lambda p: A.apply(p, 'alert-cond(off)'),
    'result(context tx)': lambda p: A.apply(p, 'patient-new(B)'),
    'result(descriptor update)': lambda p: A.apply(p, 'update-descr+state(N1)'),
    'result(descriptor create)': lambda p: A.apply(p, 'create-metric'),
    'result(rt tx)': lambda p: A.apply(p, 'rt(4)'),
}


def isolation_cases(depth):
    """Enumerate (mode, getter, obj_index, path, kind) by building once and reflecting over what is handed out."""
    walk = _build()
    p = walk.provider
    cases = []
    for gname, (kind, fn) in GETTERS.items():
        try:
            with getattr(p.mdib, kind)() as tr:
                objs = fn(p, tr)
                for oi, o in enumerate(objs):
                    for path, k in paths_of(o, depth):
                        if k == 'struct' or (len(path) == 1 and k == 'scalar'):
                            continue
                        cases.append(('aborted-tx', gname, oi, list(path), k))
                        cases.append(('after-commit', gname, oi, list(path), k))
                raise Boom
        except Boom:
            pass
    for gname, fn in ENTITY_GETTERS.items():
        for oi, o in enumerate(fn(p)):
            for path, k in paths_of(o, depth):
                if k == 'struct':
                    continue
                cases.append(('entity-copy', gname, oi, list(path), k))
    for gname, fn in RESULT_TX.items():
        w2 = _build()
        fn(w2.provider)
        for tx in w2._tx[-1:]:
            for li, lst in enumerate(_result_lists(tx)):
                for oi, o in enumerate(lst[:2]):
                    for path, k in paths_of(o, depth):
                        if k == 'struct':
                            continue
                        cases.append(('transaction-result', gname, [li, oi], list(path), k))
    return cases


def _result_lists(tx):
    return [getattr(tx, n) for n in ('descr_created', 'descr_updated', 'descr_deleted', 'metric_updates', 'alert_updates',
                                     'comp_updates', 'ctxt_updates', 'op_updates', 'rt_updates')]


def run_isolation(case, walk=None):
    mode, gname, oi, path, kind = case
    path = tuple(path)
    walk = walk or _build()
    p = walk.provider
    if mode == 'aborted-tx':
        tkind, fn = GETTERS[gname]
        before = _snap(p)
        done = False
        try:
            with getattr(p.mdib, tkind)() as tr:
                obj = fn(p, tr)[oi]
                done = mutate(obj, path, kind)
                raise Boom
        except Boom:
            pass
        return done, _same(before, _snap(p), p), walk
    if mode == 'after-commit':
        tkind, fn = GETTERS[gname]
        with getattr(p.mdib, tkind)() as tr:
            obj = fn(p, tr)[oi]
        before = _snap(p)
        done = mutate(obj, path, kind)
        return done, _same(before, _snap(p), p), walk
    if mode == 'entity-copy':
        obj = ENTITY_GETTERS[gname](p)[oi]
        before = _snap(p)
        done = mutate(obj, path, kind)
        return done, _same(before, _snap(p), p), walk
    if mode == 'transaction-result':
        if walk is None or True:
            walk = _build(periodic=True)      # with periodic reports on: the provider retains the committed states for them
            p = walk.provider
        RESULT_TX[gname](p)
        tx = walk._tx[-1]
        before = _snap(p)
        retained = _periodic_store(p)
        obj = _result_lists(tx)[oi[0]][oi[1]]
        pub_before = canon.canon_obj(obj)
        done = mutate(obj, path, kind)
        d = _same(before, _snap(p), p)
        if _periodic_store(p) != retained:
            d.append('writing to a transaction result changed the states retained for the periodic reports of that commit')
        # the other direction: a later commit must not change what this result published
        if not d:
            obj2 = _result_lists(tx)[oi[0]][oi[1]]
            pub_mut = canon.canon_obj(obj2)
            for ev in ('metric(N1,1)', 'alert-cond(on)', 'patient-update-first(X)', 'update-descr(N1)', 'rt(1,2,3)'):
                A.apply(p, ev)
            if canon.canon_obj(obj2) != pub_mut:
                d.append('a later commit changed an object of an earlier transaction result')
        return done, d, walk
    raise ValueError(mode)


# ------------------------------------------------------------------ workers
def _work(acc, case):
    acc.trace()
    acc.evals()
    acc.transition()
    kind = case[0]
    if kind.startswith('crash'):
        raised, d, before = run_crash(case)
        acc.outcome(f'{kind}:raised={raised}')
        acc.state(h64(('crash', tuple(map(str, case)))))
        if d:
            acc.violation(f'{kind}/{case[1]}/calls={case[2]}', {'problems': d[:5], 'raised': raised}, case=list(case))
        else:
            acc.nontrivial(h64(tuple(map(str, case))))
        return
    if kind == 'reject':
        name, raised, problems = run_reject(case)
        acc.outcome(f'{case[3]}:raised={raised is not None}')
        acc.state(h64(('rej', name, case[2], case[3])))
        if problems:
            acc.violation(f'{case[3]}/{name}/prior={case[2]}', {'problems': problems[:5], 'raised': raised}, case=list(case))
        else:
            acc.nontrivial(h64(('rej', name, case[2])))
        return
    done, d, _walk = run_isolation(case)
    acc.outcome(f'isolation:{case[0]}:mutated={done}')
    acc.state(h64(('iso', str(case))))
    if done:
        acc.nontrivial(h64(('iso', str(case))))
    if d:
        pth = '.'.join(str(x) for x in case[3])
        acc.violation(f'isolation/{case[0]}/{case[1]}/{pth}', {'problems': d[:4], 'object_index': case[2], 'kind': case[4]},
                      case=list(case))


def run(ctx):
    depth = 2 if ctx.quick else 3
    ctx.rule = ('crash points: every non-empty ordered selection of the API calls of %d transaction bodies (all transaction '
                'kinds, classic and entity interface, nested writes) followed by an exception, and a raising pre_commit_handler; '
                'rejected calls: %d calls the API must reject + %d accepted-or-rejected commit paths, each alone and after a valid '
                'modification; isolation: every nested attribute path (reflection depth %d) of every object handed out by %d '
                'transaction getters, %d entity getters and %d transaction results, written (a) in a transaction that aborts, '
                '(b) after the commit, (c) to an entity copy, (d) to a transaction result. Oracle: full canonical snapshot '
                '(content, versions, removed-version look-up, index scan) unchanged. distinct_nontrivial = cases in which the '
                'write / call actually happened' % (len(BODIES), len(REJECTS), len(ALL_OR_NOTHING), depth, len(GETTERS),
                                                    len(ENTITY_GETTERS), len(RESULT_TX)))
    cases = [list(c) for c in crash_cases()]
    for i in range(len(REJECTS)):
        for prior in (False, True):
            cases.append(['reject', i, prior, 'reject'])
    for i in range(len(ALL_OR_NOTHING)):
        for prior in (False, True):
            cases.append(['reject', i, prior, 'all-or-nothing'])
    for i, (name, _k, _c) in enumerate(REJECTS):
        if name not in MULTI_CALL_REJECTS:
            for prior in (False, True):
                cases.append(['reject', i, prior, 'reject-swallowed'])
    iso = isolation_cases(depth)
    cases += [list(c) for c in iso]
    ctx.note('cases', {'crash': len(crash_cases()), 'rejects': 2 * (len(REJECTS) + len(ALL_OR_NOTHING)), 'isolation': len(iso),
                       'reflection_depth': depth})
    ctx.sample({'crash-case': crash_cases()[3]})
    ctx.sample({'isolation-case': iso[len(iso) // 2]})
    ctx.pmap(_work, ctx.rotate(cases))
    ctx.assumptions.append('pre-state: ' + ' > '.join(PRE) + ' on tests/mdib_tns.xml, provider side only (no subscriber)')
    ctx.assumptions.append('an exception injected into table operations of process_transaction is not enumerated: commit '
                           'failures are only those the API itself can produce (duplicate handles, missing parent, '
                           'state deleted from entity)')


def replay(ctx, case):
    kind = case[0]
    if kind.startswith('crash'):
        raised, d, _ = run_crash(tuple(case))
        if d:
            ctx.violation(f'{kind}/{case[1]}/calls={case[2]}', d[:5])
        return {'raised': raised, 'problems': d[:5]}
    if kind == 'reject':
        name, raised, problems = run_reject(case)
        if problems:
            ctx.violation(f'{case[3]}/{name}/prior={case[2]}', problems[:5])
        return {'raised': raised, 'problems': problems[:5]}
    done, d, _ = run_isolation(case)
    if d:
        ctx.violation(f'isolation/{case[0]}/{case[1]}/' + '.'.join(str(x) for x in case[3]), d[:4])
    return {'mutated': done, 'problems': d[:4]}
