"""C16 - location scopes round-trip; location filtering tolerates foreign scopes (bounded-exhaustive enumeration)."""
from __future__ import annotations

import itertools
import warnings

PROPERTY = 'C16'
TECHNIQUE = ('exhaustive enumeration of the product of element value domains (all present/absent combinations) and of a '
             'scope-string grammar, on the real SdcLocation / LocationContextState / mk_scopes code')

V_FULL = [None, 'a', 'A b', 'x/y', '%2F', '&=?#+', 'ä€', '..', 'a\u0308\u2126']   # the last: decomposed umlaut + OHM SIGN (not NFC)
V_QUICK = [None, 'a', 'x/y', '&=?#+ä']
ELEMENTS = ('fac', 'bldng', 'flr', 'poc', 'rm', 'bed')
# texts that look like something else once they are encoded or decoded one time too many / too few
TRICKY = ['%2F', 'Bed%2F7', '100%41', 'A%20B', 'caf%C3%A9', '%', '%%', '%zz', '%4', 'x%', '%25', '%2541', 'a+b', '+', '%2B', 'a b',
          ' a', 'a ', 'a&b=c', '?', '#', 'a;b', 'a=b', '/', '//', '../x', '%00', '\\', "'", '"', 'ä', '€%E2%82%AC', 'sdc.ctxt.loc:/x', ':']


def _roundtrip_tricky(acc, arg):
    """Every tricky text in every element (the others typical or absent), and every pair of tricky texts in two elements."""
    from sdc11073.location import SdcLocation
    warnings.simplefilter('ignore')
    for values in arg:
        loc = _loc(values)
        acc.add('states')
        acc.transition()
        acc.evals()
        acc.trace()
        try:
            s = loc.scope_string
            back = SdcLocation.from_scope_string(s)
        except Exception as ex:  # noqa: BLE001
            acc.violation(f'roundtrip/raises/{_shape(values)}', {'values': values, 'error': repr(ex)},
                          case={'kind': 'roundtrip', 'values': list(values)})
            continue
        if back != loc:
            acc.violation(f'roundtrip/differs/{_shape(values)}',
                          {'values': values, 'scope': s, 'parsed': [getattr(back, e) for e in ELEMENTS]},
                          case={'kind': 'roundtrip', 'values': list(values)})
            continue
        # a location is inside itself and inside every enclosing location; a location that differs in one element is not
        # the same place
        for i, v in enumerate(values):
            if v is None:
                continue
            other = list(values)
            other[i] = 'BedA7' if v != 'BedA7' else 'zz'
            if _loc(tuple(other)).scope_string == s:
                acc.violation(f'roundtrip/different-locations-same-scope/{_shape(values)}', {'a': values, 'b': other, 'scope': s},
                              case={'kind': 'roundtrip', 'values': list(values)})


def tricky_locations(quick):
    out = []
    for i in range(6):
        for t in TRICKY:
            for filler in ('a', None):
                v = [filler] * 6
                v[i] = t
                out.append(tuple(v))
    pairs = TRICKY[:12] if quick else TRICKY
    for i, j in itertools.combinations(range(6), 2):
        if quick and (i, j) not in ((0, 5), (2, 3)):
            continue
        for a in pairs:
            for b in pairs:
                v = ['a'] * 6
                v[i], v[j] = a, b
                out.append(tuple(v))
    return out


def _loc(values):
    from sdc11073.location import SdcLocation
    return SdcLocation(**dict(zip(ELEMENTS, values)))


def _roundtrip_chunk(acc, arg):
    from sdc11073.location import SdcLocation
    warnings.simplefilter('ignore')
    first_values, domain = arg
    for fv in first_values:
        for rest in itertools.product(domain, repeat=5):
            values = (fv,) + rest
            loc = _loc(values)
            acc.add('states')
            acc.transition()
            acc.evals()
            acc.trace()
            try:
                s = loc.scope_string
                back = SdcLocation.from_scope_string(s)
            except Exception as ex:  # noqa: BLE001
                acc.violation(f'roundtrip/raises/{_shape(values)}', {'values': values, 'error': repr(ex)},
                              case={'kind': 'roundtrip', 'values': list(values)})
                continue
            if back != loc or not (back == loc) or hash(back) != hash(loc):
                acc.violation(f'roundtrip/differs/{_shape(values)}',
                              {'values': values, 'scope': s, 'parsed': [getattr(back, e) for e in ELEMENTS]},
                              case={'kind': 'roundtrip', 'values': list(values)})


def _shape(values):
    """Which value classes occur (keeps the number of violation keys small and still specific)."""
    return ','.join('-' if v is None else v for v in values)[:80]


def _published_chunk(acc, arg):
    """Real provider: set_location -> LocationContextState.update_from_sdc_location -> mk_scopes -> published scopes."""
    from mcx import world
    warnings.simplefilter('ignore')
    combos = arg
    w = world.World()
    p = w.mk_provider()
    from sdc11073.provider.scopesfactory import mk_scopes
    for values in combos:
        if all(v is None for v in values):
            continue  # a location needs at least one element (update_from_sdc_location rejects it by contract)
        loc = _loc(values)
        acc.add('states')
        acc.evals()
        acc.trace()
        try:
            p.set_location(loc)
            published = w.providers[0].verif_wsd.published[-1][2].text
            direct = mk_scopes(p.mdib).text
        except Exception as ex:  # noqa: BLE001
            acc.violation(f'published/raises/{_shape(values)}', {'values': values, 'error': repr(ex)[:300]},
                          case={'kind': 'published', 'values': list(values)})
            w = world.World()
            p = w.mk_provider()
            continue
        loc_scopes = [s for s in published if s.lower().startswith('sdc.ctxt.loc:')]
        if len(loc_scopes) != 1 or sorted(published) != sorted(direct):
            acc.violation(f'published/not-exactly-one-location-scope/{_shape(values)}',
                          {'values': values, 'published': published}, case={'kind': 'published', 'values': list(values)})
            continue
        s = loc_scopes[0]
        acc.transition()
        if not loc._scope_string_matches(s):
            acc.violation(f'published/not-inside-own-location/{_shape(values)}', {'values': values, 'scope': s},
                          case={'kind': 'published', 'values': list(values)})
            continue
        # every enclosing (less specific) location
        for mask in itertools.product((0, 1), repeat=6):
            g = _loc(tuple(v if m else None for v, m in zip(values, mask)))
            acc.transition()
            if not g._scope_string_matches(s):
                acc.violation(f'published/not-inside-enclosing-location/{_shape(values)}',
                              {'values': values, 'enclosing': [getattr(g, e) for e in ELEMENTS], 'scope': s},
                              case={'kind': 'published', 'values': list(values)})
                break
        # every location that differs in one specified element
        for i in range(6):
            for other in ('zz', (values[i] or '') + 'x', 'A B' if values[i] != 'A B' else 'a b'):
                d = list(values)
                d[i] = other
                acc.transition()
                if _loc(tuple(d))._scope_string_matches(s):
                    acc.violation(f'published/inside-location-differing-in-{ELEMENTS[i]}/{_shape(values)}',
                                  {'values': values, 'other': d, 'scope': s},
                                  case={'kind': 'published', 'values': list(values)})
                    break


FULL = ('F1', 'B2', 'L3', 'P4', 'R5', 'E6')


def _reupdate_chunk(acc, combos):
    """The associated location state already carries another (full, or partial) location and is then updated in place
    (context transaction, get_context_state + update_from_sdc_location): the published scope must be the one of the new
    location - nothing of the previous location may survive in it."""
    from mcx import world
    from sdc11073.location import SdcLocation
    from sdc11073.provider.scopesfactory import mk_scopes
    warnings.simplefilter('ignore')
    w = world.World()
    p = w.mk_provider()
    for first, values in combos:
        if all(v is None for v in values) or all(v is None for v in first):
            continue
        acc.add('states')
        acc.evals()
        acc.trace()
        loc = _loc(values)
        try:
            p.set_location(_loc(first))
            handle = [st.Handle for st in p.mdib.context_states.objects
                      if st.NODETYPE.localname == 'LocationContextState' and st.ContextAssociation is not None
                      and st.ContextAssociation.value == 'Assoc'][0]
            with p.mdib.context_state_transaction() as tr:
                st = tr.get_context_state(handle)
                st.update_from_sdc_location(loc)
            scopes = [x for x in mk_scopes(p.mdib).text if x.lower().startswith('sdc.ctxt.loc:')]
            back = SdcLocation.from_scope_string(scopes[0]) if len(scopes) == 1 else None
        except Exception as ex:  # noqa: BLE001
            acc.violation(f'reupdate/raises/{_shape(first)}>{_shape(values)}', {'first': first, 'values': values, 'error': repr(ex)[:300]},
                          case={'kind': 'reupdate', 'first': list(first), 'values': list(values)})
            w = world.World()
            p = w.mk_provider()
            continue
        acc.transition()
        if back != loc:
            acc.violation(f'reupdate/published-scope-is-not-the-new-location/{_shape(first)}>{_shape(values)}',
                          {'first': first, 'values': values, 'scopes': scopes},
                          case={'kind': 'reupdate', 'first': list(first), 'values': list(values)})


def _mutation_chunk(acc, combos):
    """An SdcLocation object is used for filtering, then one of its (public, mutable) elements is changed and it is used
    again: every answer must be the one a fresh object with the same elements gives."""
    from lxml import etree
    from sdc11073.location import SdcLocation
    from sdc11073.wsdiscovery.service import Service
    from sdc11073.xml_types.wsd_types import ScopesType
    warnings.simplefilter('ignore')
    published = [_loc(v) for v in (('a', 'b', None, 'p', None, 'bed1'), ('a', 'b', None, 'p', None, 'bed2'), ('a', None, None, None, None, None),
                                   ('z', 'b', None, 'p', None, 'bed1'))]
    services = [Service([etree.QName('urn:x', 'T')], ScopesType(l.scope_string), ['http://1.2.3.4/x'], f'urn:uuid:{i}', '1')
                for i, l in enumerate(published)]
    for values, idx, new in combos:
        acc.add('states')
        acc.evals()
        acc.trace()
        loc = _loc(values)
        first = sorted(s.epr for s in loc.filter_services_inside(services))
        changed = list(values)
        changed[idx] = new
        setattr(loc, ELEMENTS[idx], new)
        acc.transition(2)
        second = sorted(s.epr for s in loc.filter_services_inside(services))
        fresh = sorted(s.epr for s in _loc(tuple(changed)).filter_services_inside(services))
        back = sorted(s.epr for s in _loc(values).filter_services_inside(services))
        if first != back:
            acc.violation(f'mutation/filter-not-deterministic/{_shape(values)}', {'first': first, 'again': back},
                          case={'kind': 'mutation', 'combo': [list(values), idx, new]})
        if second != fresh:
            acc.violation(f'mutation/stale-answer-after-element-change/{ELEMENTS[idx]}/{_shape(values)}>{new}',
                          {'values': values, 'changed': changed, 'answer': second, 'fresh_object_answers': fresh},
                          case={'kind': 'mutation', 'combo': [list(values), idx, new]})


SCHEMES = ['sdc.ctxt.loc', 'SDC.CTXT.LOC', 'sdc.ctxt.opr', 'http', 'urn', '']
SEGMENTS = ['root', 'sdc.ctxt.loc.detail', 'a%2Fb', '', 'x y', '..']
QUERIES = ['', '?', '?fac=a', '?fac=a&bed=b', '?fac', '?=a', '?fac=a&fac=b', '?fac=%ZZ', '?&&', '?fac=a#frag', '?bogus=1;x=2']


def foreign_scopes():
    out = []
    for scheme in SCHEMES:
        for n in range(0, 5):
            for segs in itertools.product(SEGMENTS[:4] if n > 2 else SEGMENTS, repeat=n):
                for q in (QUERIES if n <= 2 else QUERIES[:4]):
                    for lead in ('/', '//', ''):
                        path = lead + '/'.join(segs)
                        out.append(f'{scheme}:{path}{q}' if scheme else f'{path}{q}')
    out += ['sdc.ctxt.loc:/root', 'sdc.ctxt.loc:', 'sdc.ctxt.loc:/a/b/c/d', 'http://[::1', 'http://[::1]:x/', 'sdc.ctxt.loc://[',
            'sdc.ctxt.loc:/sdc.ctxt.loc.detail', '::', 'sdc.ctxt.loc', 'sdc.ctxt.loc:?fac=a', '\x00', ' ', 'sdc.ctxt.loc:/%/%%?%=%',
            'sdc.ctxt.loc:/sdc.ctxt.loc.detail/' + 'x' * 5000]
    seen, uniq = set(), []
    for s in out:
        if s not in seen:
            seen.add(s)
            uniq.append(s)
    return uniq


def _foreign_chunk(acc, scopes):
    from lxml import etree
    from sdc11073.location import SdcLocation
    from sdc11073.wsdiscovery.service import Service
    from sdc11073.xml_types.wsd_types import ScopesType
    warnings.simplefilter('ignore')
    mine = [SdcLocation(fac='a'), SdcLocation(), SdcLocation(fac='a', bed='b', root='root')]
    good = ScopesType(SdcLocation(fac='a', bed='b').scope_string)
    for s in scopes:
        acc.add('states')
        acc.evals()
        acc.trace()
        services = [Service([etree.QName('urn:x', 'T')], ScopesType(s), ['http://1.2.3.4/x'], 'urn:uuid:1', '1'),
                    Service(None, good, None, 'urn:uuid:2', '1'),
                    Service(None, None, None, 'urn:uuid:3', '1')]
        sc2 = ScopesType(s)
        sc2.text.append(good.text[0])
        services.append(Service(None, sc2, None, 'urn:uuid:4', '1'))
        for loc in mine:
            acc.transition()
            try:
                res = loc.filter_services_inside(services)
            except Exception as ex:  # noqa: BLE001
                acc.violation(f'foreign/filter-raises/{type(ex).__name__}/{_scope_class(s)}',
                              {'scope': s[:200], 'error': repr(ex)[:200]}, case={'kind': 'foreign', 'scope': s})
                break
            eprs = {x.epr for x in res}
            if loc.fac == 'a' and loc._root == 'sdc.ctxt.loc.detail' and not {'urn:uuid:2', 'urn:uuid:4'} <= eprs:
                acc.violation(f'foreign/matching-service-dropped/{_scope_class(s)}', {'scope': s[:200], 'result': sorted(eprs)},
                              case={'kind': 'foreign', 'scope': s})
            if 'urn:uuid:3' in eprs:
                acc.violation('foreign/service-without-scopes-matched', {'scope': s[:200]}, case={'kind': 'foreign', 'scope': s})


def _scope_class(s):
    scheme = s.split(':')[0].lower() if ':' in s else ''
    path = s.split(':', 1)[1].split('?')[0] if ':' in s else s
    return f'scheme={scheme[:14]}/segments={path.count("/")}'


def run(ctx):
    warnings.simplefilter('ignore')
    domain = V_QUICK if ctx.quick else V_FULL
    ctx.rule = ('round trip: all |V|^6 locations over V=%r; published scope (real provider.set_location -> mk_scopes): all '
                'locations over a sub-domain, against all 64 enclosing locations and 18 one-element deviations each; foreign '
                'scopes: scheme x 0-4 path segments x query-shape grammar (%d strings) through filter_services_inside with 3 own '
                'locations. distinct_nontrivial counts enumerated cases (distinct by construction)' % (domain, len(foreign_scopes())))
    jobs = [([fv], domain) for fv in ctx.rotate(domain)]
    ctx.pmap(_roundtrip_chunk, jobs, chunksize=1)
    tl = tricky_locations(ctx.quick)
    ctx.note('tricky_locations', len(tl))
    n = max(1, len(tl) // 32)
    ctx.pmap(_roundtrip_tricky, [tl[i:i + n] for i in range(0, len(tl), n)], chunksize=1)
    # the published scope of a tricky location must be found inside that location (real provider path)
    tp = [v for v in tl if all(x is not None for x in v)][::7 if ctx.quick else 1]
    n = max(1, len(tp) // 32)
    ctx.pmap(_published_chunk, [tp[i:i + n] for i in range(0, len(tp), n)], chunksize=1)
    pub_domain = [None, 'a', 'x/y &=?#+ä'] if ctx.quick else [None, 'a', 'A b', 'x/y', '&=?#+ä€%2F']
    # unicode that changes under normalisation (NFC / NFKC / case folding): whatever is published must still be found
    # inside the location it was made from, compared code point by code point
    uni = ['a\u0308', '\u2126', '\u212b', '\u1100\u1161', 'e\u0301\u0323', '\ufb01', '\u00b5', 'I\u0307', '\u1e9e']
    uni_combos = [tuple(u if i == k else None for i in range(6)) for u in uni for k in range(6)]
    uni_combos += [tuple([u] * 6) for u in uni]
    ctx.pmap(_published_chunk, [uni_combos[i::8] for i in range(8)], chunksize=1)
    combos = list(itertools.product(pub_domain, repeat=6))
    n = max(1, len(combos) // 32)
    ctx.pmap(_published_chunk, [combos[i:i + n] for i in range(0, len(combos), n)], chunksize=1)
    # the location state is updated in place: previous location = full / each single element / the new one's complement
    re_combos = [(FULL, c) for c in combos]
    re_combos += [(tuple(FULL[i] if i == k else None for i in range(6)), c) for k in range(6) for c in combos[::(9 if ctx.quick else 1)]]
    re_combos += [(tuple('zz' if v is None else None for v in c), c) for c in combos]
    n = max(1, len(re_combos) // 64)
    ctx.pmap(_reupdate_chunk, [re_combos[i:i + n] for i in range(0, len(re_combos), n)], chunksize=1)
    ctx.note('reupdate_cases', len(re_combos))
    mdom = [None, 'a', 'b', 'p', 'bed1', 'z']
    starts = [v for v in itertools.product([None, 'a'], [None, 'b'], [None], [None, 'p'], [None], [None, 'bed1', 'bed2'])]
    mut = [(v, i, new) for v in starts for i in range(6) for new in mdom if new != v[i]]
    n = max(1, len(mut) // 32)
    ctx.pmap(_mutation_chunk, [mut[i:i + n] for i in range(0, len(mut), n)], chunksize=1)
    ctx.note('mutation_cases', len(mut))
    scopes = foreign_scopes()
    n = max(1, len(scopes) // 32)
    ctx.pmap(_foreign_chunk, [scopes[i:i + n] for i in range(0, len(scopes), n)], chunksize=1)
    total = ctx.counts.get('states', 0)
    ctx.distinct = set(range(total))
    ctx.note('bounds', {'roundtrip_locations': len(domain) ** 6, 'published_locations': len(combos), 'foreign_scopes': len(scopes)})
    ctx.sample({'location': dict(zip(ELEMENTS, ('a', None, 'x/y', '&=?#+ä', None, 'a')))})
    ctx.sample({'foreign_scopes': scopes[5:9] + ['sdc.ctxt.loc:/root', 'http://[::1']})
    ctx.assumptions.append('the empty string is treated as an absent element (scope_string itself does so); the all-absent '
                           'location is not published (update_from_sdc_location rejects it by contract)')


def replay(ctx, case):
    warnings.simplefilter('ignore')
    if case['kind'] == 'roundtrip':
        _roundtrip_chunk(ctx, ([case['values'][0]], [None]))  # touches the module; then the exact value:
        from sdc11073.location import SdcLocation
        loc = _loc(tuple(case['values']))
        try:
            back = SdcLocation.from_scope_string(loc.scope_string)
            ok = back == loc
        except Exception as ex:  # noqa: BLE001
            ok, back = False, repr(ex)
        if not ok:
            ctx.violation(f'roundtrip/{_shape(case["values"])}', {'parsed': str(back)})
        return {'ok': ok}
    if case['kind'] == 'mutation':
        c = case['combo']
        _mutation_chunk(ctx, [(tuple(c[0]), c[1], c[2])])
    elif case['kind'] == 'reupdate':
        _reupdate_chunk(ctx, [(tuple(case['first']), tuple(case['values']))])
    elif case['kind'] == 'published':
        _published_chunk(ctx, [tuple(case['values'])])
    else:
        _foreign_chunk(ctx, [case['scope']])
    return {'violations': sorted(ctx.violations)}
