"""C15 (c): a message the node sends is already known as its own when the first copy can come back - schedule part.

Thread A (application / discovery logic) calls the real NetworkingThread.add_outbound_message; thread B plays the send
thread together with the multicast loop-back and the reader: whenever a copy is due in the send queue (initial delay drawn
as 0) it takes it, hands its bytes to the real datagram reader (_run_q_read) as if the network had looped it back, and
records what reaches handle_received_message. Scheduling points: every statement of add_outbound_message and
_repeated_enqueue_msg (sched.LineAnchors); all schedules with at most `bound` preemptions. Oracle: the looped-back own
message is never dispatched.
"""
from __future__ import annotations

import queue

from mcx import sched
from mcx.runner import h64

ANCHORS = sched.LineAnchors([('wsdiscovery/networkingthread.py', 'add_outbound_message'),
                             ('wsdiscovery/networkingthread.py', '_repeated_enqueue_msg')])
KINDS = ['multicast', 'unicast']


class Run:
    def __init__(self, kind, prefix):
        from mcx.checks import c15
        self.kind = kind
        self.ntmod, self.wsdimpl, self.frandom = c15._setup()
        self.frandom.fixed = lambda what, a, b, step=1: a          # every draw takes its minimum: initial delay 0
        self.rec = c15._RecordingWsd()
        self.nt = c15._mk_nt(self.ntmod, self.rec)
        self.msg = c15._mk_message(self.wsdimpl)
        self.own_id = self.msg.p_msg.header_info_block.MessageID
        self.c15 = c15
        self.s = sched.Scheduler(prefix)
        self.s.line_anchors = ANCHORS
        self.sent = 0
        self.s.spawn(self._caller, 'A:add_outbound_message')
        self.s.spawn(self._wire, 'B:send+loopback+read')

    def _caller(self):
        params = self.ntmod.MULTICAST_REPEAT_PARAMS if self.kind == 'multicast' else self.ntmod.UNICAST_REPEAT_PARAMS
        self.nt.add_outbound_message(self.msg, '239.255.255.250' if self.kind == 'multicast' else '10.0.0.9', 3702, params)

    def _wire(self):
        # three polls of the send queue; between them the scheduler may run the caller
        for _ in range(3):
            due = []
            while True:
                try:
                    item = self.nt._send_queue.get_nowait()
                except queue.Empty:
                    break
                due.append(item)
            for item in due:
                if item.send_time <= self.c15.NOW + 1e-9:
                    self.sent += 1
                    data = item.msg.created_message.serialize()
                    self.nt._quit_recv_event.clear()
                    self.nt._read_queue = self.c15._ScriptedQueue(self.nt, [(('127.0.0.1', 3702), data)])
                    self.nt._run_q_read()
                # copies that are not due yet are dropped: only the first transmission matters here
            self.s.point('poll')

    def go(self):
        self.s.run()
        return self

    def judge(self):
        problems = []
        for t in self.s.threads:
            if t.exc is not None:
                problems.append((f'thread-raised/{t.name.split(":")[0]}', repr(t.exc)[:200]))
        handled = [mid for _a, mid in self.rec.handled]
        if self.own_id in handled:
            problems.append(('own-message-dispatched-after-loop-back', {'own_id': self.own_id, 'copies_looped_back': self.sent}))
        return problems, (self.sent, len(handled))


def _explore(acc, arg):
    kind, bound = arg
    outcomes = set()
    found = {}

    def one(prefix):
        r = Run(kind, prefix).go()
        problems, outcome = r.judge()
        acc.add('statement-points', r.s.line_points)
        return r.s.trace, (outcome, problems, r.s.choices())

    def on_exec(prefix, trace, payload):
        outcome, problems, choices = payload
        acc.transition(len(trace))
        acc.trace()
        acc.evals()
        acc.add(f'loopback-race-schedules[{kind}]')
        outcomes.add(outcome)
        acc.state(h64(('c15c', kind, tuple(choices))))
        for k, detail in problems:
            if k not in found:
                found[k] = (detail, choices, sched.preemptions(trace))

    n, capped = sched.explore(one, bound, max_executions=20000, on_execution=on_exec)
    if capped:
        acc.cap(f'loopback-race[{kind}]', f'stopped after {n} schedules')
    for o in outcomes:
        acc.nontrivial(h64(('c15c', kind, o)))
    acc.note(f'loopback-race[{kind}]', {'schedules': n, 'outcomes (copies looped back, messages dispatched)': sorted(outcomes)})
    for k, (detail, choices, pre) in found.items():
        acc.violation(f'loopback-race/{k}/{kind}', {'detail': detail, 'schedule': choices, 'preemptions': pre},
                      case={'kind': 'loopback-race', 'sender': kind, 'schedule': choices})


def run(ctx):
    bound = 2 if ctx.quick else 3
    ctx.pmap(_explore, [(k, bound) for k in KINDS], chunksize=1)
    ctx.note('loopback_race_preemption_bound', bound)


def replay(ctx, case):
    r = Run(case['sender'], case['schedule']).go()
    problems, outcome = r.judge()
    for k, detail in problems:
        ctx.violation(f'loopback-race/{k}', detail)
    return {'outcome': list(outcome), 'problems': [p[0] for p in problems]}
