"""C20 - query services return exactly the selected states and texts (bounded-exhaustive enumeration)."""
from __future__ import annotations

import itertools

from mcx import alphabet as A
from mcx import world
from mcx.runner import h64

PROPERTY = 'C20'
TECHNIQUE = ('exhaustive enumeration of all handle lists up to a length bound (existing, unknown, duplicated, mixed kinds) over '
             'several MDIB contents, and of the full product of localization filter parameters over several text stores, through '
             'the real consumer service clients and provider services; reference selection computed from the provider tables')

PRE_STATES = {
    'initial': [],
    'two-patients': ['patient-new(A)'],
    'patients+location': ['patient-new(A)', 'location(1)', 'patient-entity-new(C)'],
    'location-changed': ['location(1)', 'location(2)'],
}
WIDTH_ORDER = {'xs': 0, 's': 1, 'm': 2, 'l': 3, 'xl': 4, 'xxl': 5}


def _states_universe(p, with_context):
    out = {('s', s.DescriptorHandle): s for s in p.mdib.states.objects}
    if with_context:
        out.update({('c', s.Handle): s for s in p.mdib.context_states.objects})
    return out


def ref_md_state(p, handles, with_context):
    uni = _states_universe(p, with_context)
    if not handles:
        return set(uni)
    sel = set()
    for h in handles:
        if ('c', h) in uni:
            sel.add(('c', h))
            continue
        for k, s in uni.items():
            if s.DescriptorHandle == h:
                sel.add(k)
    return sel


def _mds_of(p, handle):
    cur = p.mdib.descriptions.handle.get_one(handle, allow_none=True)
    for _ in range(50):
        if cur is None:
            return None
        if cur.parent_handle is None:
            return cur.Handle
        cur = p.mdib.descriptions.handle.get_one(cur.parent_handle, allow_none=True)
    return None


def ref_context_states(p, handles):
    uni = {s.Handle: s for s in p.mdib.context_states.objects}
    if not handles:
        return set(uni)
    sel = set()
    mds_name = p.mdib.data_model.pm_names.MdsDescriptor
    for h in handles:
        if h in uni:
            sel.add(h)
            continue
        d = p.mdib.descriptions.handle.get_one(h, allow_none=True)
        if d is None:
            continue
        if d.NODETYPE == mds_name:
            sel |= {sh for sh, s in uni.items() if _mds_of(p, s.DescriptorHandle) == h}
        else:
            sel |= {sh for sh, s in uni.items() if s.DescriptorHandle == h}
    return sel


def handle_pool(p, two_mds):
    ctx = sorted(s.Handle for s in p.mdib.context_states.objects)
    pool = ctx[:2] + [A.PAT, A.LOC, A.NUM1, 'mds0', A.VMD, 'SC.mds0', 'unknown.handle']
    if two_mds:
        pool += ['mds_1', A.NUM_M1]
    return pool


def _query_chunk(acc, arg):
    cfg_name, pre, two_mds, with_context, maxlen = arg
    w = world.World()
    p = w.mk_provider(mdib_path=world.MDIB_TWO_MDS if two_mds else world.MDIB_TNS)
    p.contextstates_in_getmdib = with_context
    for name in pre:
        A.apply(p, name)
    c = w.mk_consumer(p)
    get = c.client('Get')
    ctxs = c.client('Context')
    pool = handle_pool(p, two_mds)
    lists = [[]] + [list(t) for n in range(1, maxlen + 1) for t in itertools.product(pool, repeat=n)]
    acc.state(h64(('mdib', cfg_name, pre, two_mds, with_context)))
    for handles in lists:
        shape = _shape(p, handles)
        # ---- GetMdState
        acc.transition()
        acc.evals()
        acc.trace()
        try:
            res = get.get_md_state(handles if handles else None)
            got = []
            for s in res.result.MdState.State:
                got.append(('c', s.Handle) if s.is_context_state else ('s', s.DescriptorHandle))
        except Exception as ex:  # noqa: BLE001
            acc.violation(f'GetMdState/raises/{shape}', {'handles': handles, 'config': cfg_name, 'error': repr(ex)[:200]},
                          case={'kind': 'query', 'arg': list(arg[:4]), 'handles': handles})
            got = None
        if got is not None:
            want = ref_md_state(p, handles, with_context)
            acc.nontrivial(h64(('mdstate', tuple(sorted(want)))))
            _compare(acc, 'GetMdState', got, want, handles, shape, cfg_name, arg)
        # ---- GetContextStates
        acc.transition()
        acc.evals()
        try:
            res = ctxs.get_context_states(handles if handles else None)
            got = [s.Handle for s in res.result.ContextState]
        except Exception as ex:  # noqa: BLE001
            acc.violation(f'GetContextStates/raises/{shape}', {'handles': handles, 'config': cfg_name, 'error': repr(ex)[:200]},
                          case={'kind': 'query', 'arg': list(arg[:4]), 'handles': handles})
            continue
        want = ref_context_states(p, handles)
        acc.nontrivial(h64(('ctx', tuple(sorted(want)))))
        _compare(acc, 'GetContextStates', got, want, handles, shape, cfg_name, arg)
    if len(acc.samples) < 3:
        acc.sample({'config': cfg_name, 'handle_lists': lists[1:4] + lists[-2:]})


def _compare(acc, service, got, want, handles, shape, cfg_name, arg):
    dup = sorted({g for g in got if got.count(g) > 1}, key=str)
    if dup:
        acc.violation(f'{service}/state-returned-twice/{shape}', {'handles': handles, 'config': cfg_name, 'twice': dup[:4]},
                      case={'kind': 'query', 'arg': list(arg[:4]), 'handles': handles})
        return
    if set(got) != set(want):
        acc.violation(f'{service}/selection-differs/{shape}',
                      {'handles': handles, 'config': cfg_name, 'missing': sorted(set(want) - set(got), key=str)[:5],
                       'extra': sorted(set(got) - set(want), key=str)[:5]},
                      case={'kind': 'query', 'arg': list(arg[:4]), 'handles': handles})


def _shape(p, handles):
    kinds = []
    ctx = {s.Handle for s in p.mdib.context_states.objects}
    for h in handles:
        if h in ctx:
            kinds.append('ctxstate')
        else:
            d = p.mdib.descriptions.handle.get_one(h, allow_none=True)
            kinds.append('unknown' if d is None else d.NODETYPE.localname.replace('Descriptor', ''))
    tag = '+'.join(kinds) or 'empty'
    if len(set(handles)) != len(handles):
        tag += '(dup)'
    return tag


# ------------------------------------------------------------------ localization
def text_stores():
    from sdc11073.xml_types.pm_types import LocalizedText, LocalizedTextWidth as W
    full = []
    for ref in ('a', 'b'):
        for version in (0, 1, 2):
            for lang in ('en', 'de'):
                for width in (W.S, W.M, W.L, None):
                    for lines in (1, 2):
                        txt = f'{ref}{version}{lang}{width.value if width else "none"}' + ('\nsecond line' if lines == 2 else '')
                        full.append(LocalizedText(txt, lang=lang, ref=ref, version=version, text_width=width))
    v0 = [t for t in full if t.Version == 0]
    full = [t for t in full if t.Version != 0]
    stores = {
        'full': full,
        'v0-v1-v2': v0 + full,
        'v0-only': v0,
        'v1-only': [t for t in full if t.Version == 1],
        'b-has-only-v1': [t for t in full if not (t.Ref == 'b' and t.Version == 2)],
        'single-lang': [t for t in full if t.Lang == 'en'],
        'no-width': [t for t in full if t.TextWidth is None],
        'empty': [],
    }
    return stores


def _loc_chunk(acc, store_name):
    from sdc11073.xml_types.pm_types import LocalizedTextWidth as W
    stores = text_stores()
    texts = stores[store_name]
    w = world.World()
    p = w.mk_provider()
    storage = p.localization_storage
    storage.add(*texts)
    c = w.mk_consumer(p)
    client = c.client('LocalizationService')
    acc.state(h64(('store', store_name)))
    all_texts = list(texts)
    latest = max((t.Version for t in all_texts if t.Version is not None), default=None)
    # supported languages
    acc.transition()
    langs = sorted(client.get_supported_languages().result.Lang)
    if langs != sorted({t.Lang for t in all_texts}):
        acc.violation(f'GetSupportedLanguages/differs/{store_name}', {'got': langs, 'stored': sorted({t.Lang for t in all_texts})},
                      case={'kind': 'loc', 'store': store_name})
    ref_opts = [None, ['a'], ['a', 'b'], ['zz'], ['a', 'a']]
    ver_opts = [None, 0, 1, 2, 3]
    lang_opts = [None, ['en'], ['en', 'de'], ['fr']]
    width_opts = [None, [W.S], [W.M], [W.XS], [W.S, W.L]]
    line_opts = [None, [1], [2], [1, 2]]
    for refs, ver, lng, widths, lines in itertools.product(ref_opts, ver_opts, lang_opts, width_opts, line_opts):
        acc.transition()
        acc.evals()
        acc.trace()
        params = {'refs': refs, 'version': ver, 'langs': lng, 'widths': [x.value for x in widths] if widths else None, 'lines': lines}
        cls = '/'.join(k for k, v in params.items() if v is not None) or 'unconstrained'
        try:
            res = client.get_localized_texts(refs, ver, lng, widths, lines)
            got = list(res.result.Text)
        except Exception as ex:  # noqa: BLE001
            acc.violation(f'GetLocalizedText/raises/{store_name}/{cls}', {'params': params, 'error': repr(ex)[:300]},
                          case={'kind': 'loc', 'store': store_name})
            continue
        acc.nontrivial(h64((store_name, str(params), len(got))))
        eff_version = ver if ver is not None else latest
        for t in got:
            bad = None
            if refs is not None and t.Ref not in refs:
                bad = f'Ref {t.Ref} not requested'
            elif eff_version is not None and t.Version != eff_version:
                bad = f'Version {t.Version}, requested/latest {eff_version}'
            elif lng is not None and t.Lang not in lng:
                bad = f'Lang {t.Lang} not requested'
            elif widths is not None and (t.TextWidth is None or not any(
                    WIDTH_ORDER[t.TextWidth.value] <= WIDTH_ORDER[x.value] for x in widths)):
                bad = f'TextWidth {t.TextWidth} wider than every requested width'
            elif lines is not None and not any(len(t.text.split('\n')) <= n for n in lines):
                bad = f'{len(t.text.split(chr(10)))} lines, more than every requested number'
            if bad:
                acc.violation(f'GetLocalizedText/text-violates-constraint/{store_name}/{cls}', {'params': params, 'text': t.text, 'why': bad},
                              case={'kind': 'loc', 'store': store_name})
                break
        if refs is None and ver is None and lng is None and widths is None and lines is None:
            want = sorted(t.text for t in all_texts if t.Version == latest)
            if sorted(t.text for t in got) != want:
                acc.violation(f'GetLocalizedText/unconstrained-not-all-latest/{store_name}',
                              {'got': len(got), 'expected': len(want)}, case={'kind': 'loc', 'store': store_name})


def _loc_order_chunk(acc, orders):
    """The text store is filled by several add() calls in every order (versions arriving late, a single late
    translation of an older version, the same batch twice): the answers depend on the stored set only."""
    from sdc11073.xml_types.pm_types import LocalizedText
    def batch(version, langs=('en', 'de'), refs=('a', 'b')):
        return [LocalizedText(f'{r}{version}{lg}', lang=lg, ref=r, version=version) for r in refs for lg in langs]
    parts = {'v0': batch(0), 'v1': batch(1), 'v2': batch(2), 'late-v1-fr': batch(1, langs=('fr',), refs=('a',)),
             'late-v0-single': batch(0, langs=('en',), refs=('c',))}
    for order in orders:
        acc.trace()
        acc.evals()
        acc.transition(len(order))
        w = world.World()
        p = w.mk_provider()
        stored = []
        c = w.mk_consumer(p)
        client = c.client('LocalizationService')
        for name in order:
            p.localization_storage.add(*parts[name])
            stored += parts[name]
            # queries between the additions (an answer remembered by the service must not survive the next addition)
            langs = sorted(client.get_supported_languages().result.Lang)
            if langs != sorted({t.Lang for t in stored}):
                acc.violation(f'GetSupportedLanguages/differs/add-order/{">".join(order)}/after-{name}', {'got': langs},
                              case={'kind': 'loc-order', 'order': list(order)})
            client.get_localized_texts()
        latest = max(t.Version for t in stored)
        tag = '>'.join(order)
        acc.state(h64(('order', tag)))
        got = sorted(t.text for t in client.get_localized_texts().result.Text)
        want = sorted(t.text for t in stored if t.Version == latest)
        if got != want:
            acc.violation(f'GetLocalizedText/unconstrained-not-all-latest/add-order/{tag}', {'got': got[:6], 'expected': want[:6]},
                          case={'kind': 'loc-order', 'order': list(order)})
        for ver in (0, 1, 2):
            got = sorted(t.text for t in client.get_localized_texts(version=ver).result.Text)
            want = sorted(t.text for t in stored if t.Version == ver)
            if got != want:
                acc.violation(f'GetLocalizedText/version-query-differs/add-order/{tag}/v{ver}', {'got': got[:6], 'expected': want[:6]},
                              case={'kind': 'loc-order', 'order': list(order)})
        langs = sorted(client.get_supported_languages().result.Lang)
        if langs != sorted({t.Lang for t in stored}):
            acc.violation(f'GetSupportedLanguages/differs/add-order/{tag}', {'got': langs}, case={'kind': 'loc-order', 'order': list(order)})
        acc.nontrivial(h64(('order', tag)))
        w.close()


def run(ctx):
    maxlen = 2 if ctx.quick else 3
    ctx.rule = ('GetMdState / GetContextStates: all handle lists of length <= %d over a pool of 9-11 handles (two context-state handles, '
                'context descriptors, metric, MDS, VMD, system context, unknown; duplicates and mixed kinds arise by construction) over '
                '%d MDIB contents x {single, two MDS} x contextstates_in_getmdib in {T, F}; GetLocalizedText: 8 text stores x all 2000 '
                'combinations of ref / version / language / width / lines parameters; GetSupportedLanguages per store. '
                'distinct_nontrivial = distinct expected selections' % (maxlen, len(PRE_STATES)))
    jobs = []
    for name, pre in PRE_STATES.items():
        for two in (False, True):
            for with_ctx in (True, False):
                if ctx.quick and not with_ctx and name not in ('two-patients',):
                    continue
                jobs.append((f'{name}/two_mds={two}/ctx_in_getmdib={with_ctx}', tuple(pre), two, with_ctx, maxlen))
    ctx.pmap(_query_chunk, ctx.rotate(jobs), chunksize=1)
    ctx.pmap(_loc_chunk, list(text_stores()), chunksize=1)
    names = ['v0', 'v1', 'v2', 'late-v1-fr', 'late-v0-single']
    orders = [o for k in ((2, 3) if ctx.quick else (2, 3, 4, 5)) for o in itertools.permutations(names, k)]
    orders += [('v1', 'v2', 'v1'), ('v2', 'v2', 'v1')]
    n = max(1, len(orders) // 32)
    ctx.pmap(_loc_order_chunk, [orders[i:i + n] for i in range(0, len(orders), n)], chunksize=1)
    ctx.note('text_store_add_orders', len(orders))
    ctx.note('bounds', {'mdib_configs': len(jobs), 'max_handle_list_length': maxlen, 'text_stores': len(text_stores())})
    ctx.assumptions.append('GetMdState selects among single states plus context states only if contextstates_in_getmdib is set '
                           '(the provider option that defines whether GetMdib/GetMdState carry context states)')
    ctx.assumptions.append('for constrained GetLocalizedText queries only soundness is checked (every returned text satisfies '
                           'every constraint), as the property states; completeness only for the unconstrained query')


def replay(ctx, case):
    if case['kind'] == 'query':
        a = case['arg']
        _query_chunk(ctx, (a[0], tuple(a[1]), a[2], a[3], 2))
    elif case['kind'] == 'loc-order':
        _loc_order_chunk(ctx, [tuple(case['order'])])
    else:
        _loc_chunk(ctx, case['store'])
    return {'violations': sorted(ctx.violations)[:10]}
