"""C11 (d): a reader that holds the table lock never sees a half-updated table - schedule exploration part of C11.

One writer thread performs one locked mutating operation of the real MultiKeyLookup (update_object, update_objects,
add_object, add_objects, remove_object, remove_objects, clear) on objects whose attributes do not change; one reader
thread takes the table lock (as the MDIB code and applications do for multi-step reads) and compares every index with a
scan of the stored objects. Scheduling points: every lock operation and every statement of multikey.py
(sched.LineAnchors); every schedule with at most `bound` preemptions is executed. A mutating method that works on the
indices without holding the lock shows up as an index that lacks an object which never left the table.
"""
from __future__ import annotations

from mcx import canon, sched, world
from mcx.runner import h64

ANCHORS = sched.LineAnchors([('sdc11073/multikey.py', '*')])
WRITER_OPS = ['update_object', 'update_objects', 'add_object', 'add_objects', 'remove_object', 'remove_objects', 'clear',
              'update_object_twice']
TABLES = ['descriptors', 'states', 'multistates']


class Run:
    def __init__(self, scenario, prefix):
        from mcx.checks import c11
        self.table_name, self.op = scenario
        self.s = sched.Scheduler(prefix)
        self.s.line_anchors = ANCHORS
        world.install()
        world.ENV.sched = self.s       # the table's RLock is created by the library: it becomes scheduler-aware
        try:
            factory, domains, _unique = c11._tables()[self.table_name]
            self.table = factory()
            self.objs = [c11.Stub(i) for i in range(4)]
            for i, o in enumerate(self.objs):
                o.Handle = o.DescriptorHandle = f'h{i}'
                o.parent_handle = 'p' if i % 2 else 'q'
                o.NODETYPE = 'T1' if i < 2 else 'T2'
                o.ConditionSignaled = 'c' if i == 0 else None
                o.Source = ['a', 'b'] if i == 1 else None
                if self.table_name == 'multistates':
                    o.DescriptorHandle = 'd0' if i < 3 else 'd1'
            self.table.add_objects(self.objs[:2])
        except BaseException:
            world.ENV.sched = None
            raise
        self.seen = []
        self.s.spawn(self._writer, f'W:{self.op}')
        self.s.spawn(self._reader, 'R:scan-under-lock')

    def _writer(self):
        t, o = self.table, self.objs
        op = self.op
        if op == 'update_object':
            t.update_object(o[0])
        elif op == 'update_object_twice':
            t.update_object(o[1])
            t.update_object(o[0])
        elif op == 'update_objects':
            t.update_objects([o[0], o[1]])
        elif op == 'add_object':
            t.add_object(o[2])
        elif op == 'add_objects':
            t.add_objects([o[2], o[3]])
        elif op == 'remove_object':
            t.remove_object(o[0])
        elif op == 'remove_objects':
            t.remove_objects([o[0], o[1]])
        else:
            t.clear()

    def _reader(self):
        for _ in range(2):
            with self.table.lock:
                members = tuple(sorted(x.idx for x in self.table.objects))
                problems = canon.scan_ok(self.table)
            self.seen.append((members, tuple(problems[:2])))

    def go(self):
        try:
            self.s.run()
        finally:
            world.ENV.sched = None
        return self

    def judge(self):
        problems = []
        for t in self.s.threads:
            if t.exc is not None:
                problems.append((f'thread-raised/{t.name.split(":")[0]}', repr(t.exc)[:200]))
        if isinstance(self.s.error, sched.Deadlock):
            problems.append(('deadlock', str(self.s.error)[:200]))
        for members, probs in self.seen:
            if probs:
                problems.append(('reader-holding-the-lock-saw-index-differing-from-scan', {'members': members, 'problems': list(probs)}))
                break
        final = canon.scan_ok(self.table)
        if final:
            problems.append(('table-inconsistent-at-the-end', final[:2]))
        return problems, tuple(m for m, _ in self.seen)


def _explore(acc, arg):
    scenario, bound, cap = arg
    name = f'{scenario[0]}: {scenario[1]} || reader'
    outcomes = set()
    found = {}

    def one(prefix):
        r = Run(scenario, prefix).go()
        problems, outcome = r.judge()
        acc.add('statement-points', r.s.line_points)
        return r.s.trace, (outcome, problems, r.s.choices())

    def on_exec(prefix, trace, payload):
        outcome, problems, choices = payload
        acc.transition(len(trace))
        acc.trace()
        acc.evals()
        acc.add(f'table-race-schedules[{name}]')
        outcomes.add(outcome)
        acc.state(h64(('c11d', name, tuple(choices))))
        for kind, detail in problems:
            if kind not in found:
                found[kind] = (detail, choices, sched.preemptions(trace))

    n, capped = sched.explore(one, bound, max_executions=cap, on_execution=on_exec)
    if capped:
        acc.cap(f'table-race[{name}]', f'stopped after {n} schedules')
    for o in outcomes:
        acc.nontrivial(h64(('c11d', name, o)))
    for kind, (detail, choices, pre) in found.items():
        acc.violation(f'table-race/{kind}/{scenario[0]}/{scenario[1]}',
                      {'scenario': name, 'detail': detail, 'schedule': choices, 'preemptions': pre},
                      case={'kind': 'table-race', 'scenario': list(scenario), 'schedule': choices})


def run(ctx):
    bound = 1 if ctx.quick else 2
    jobs = [((t, op), bound, 20000) for t in (TABLES[:1] if ctx.quick else TABLES) for op in WRITER_OPS]
    ctx.note('table_race_scenarios', len(jobs))
    ctx.note('table_race_preemption_bound', bound)
    ctx.pmap(_explore, ctx.rotate(jobs), chunksize=1)


def replay(ctx, case):
    r = Run(tuple(case['scenario']), case['schedule']).go()
    problems, outcome = r.judge()
    for kind, detail in problems:
        ctx.violation(f'table-race/{kind}', detail)
    return {'outcome': str(outcome), 'problems': [p[0] for p in problems]}
