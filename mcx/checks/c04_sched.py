"""C04 (b): report ordering under concurrently writing threads - schedule exploration part of the C04 check."""
from __future__ import annotations

import itertools

from lxml import etree

from mcx import alphabet as A
from mcx import canon, sched, world
from mcx.checks import c04
from mcx.runner import h64

WRITER_EVENTS = {
    'metric': ['metric(N1,1)', 'metric(N1,2)'],
    'alert': ['alert-cond(on)', 'alert-cond(off)'],
    'rt': ['rt(1,2,3)', 'rt(4)'],
    'context': ['location(1)', 'location(2)'],
    'descr': ['update-descr+state(N1)', 'update-descr(CH)'],
    'component': ['component(vmd0,on)', 'component(ch0,off)'],
}
MAJOR = ('mdib_lock', '_tr_lock', 'transaction_id')


def _weight(label):
    return 1 if any(m in label for m in MAJOR) else 2


# statement-granularity pass: every statement of the commit path and of the report sending path is a scheduling point
LINE_ANCHORS = sched.LineAnchors([
    ('mdib/providermdib.py', '_transaction_manager'),
    ('mdib/transactions.py', 'process_transaction'),
    ('mdib/transactions.py', '_handle_state_updates'),
    ('provider/providerimpl.py', '*'),
    ('provider/subscriptionmgr_base.py', 'send_to_subscribers'),
    ('provider/subscriptionmgr_base.py', '_get_subscriptions_for_action'),
    ('provider/subscriptionmgr.py', '*'),
    ('provider/porttypes/stateeventserviceimpl.py', '*'),
    ('provider/porttypes/waveformserviceimpl.py', '*'),
    ('provider/porttypes/descriptioneventserviceimpl.py', '*'),
    ('provider/porttypes/contextserviceimpl.py', '*'),
])


def _line_weight(label):
    return 1 if label.startswith('line:') or any(m in label for m in MAJOR) else 99


class Recorder:
    def __init__(self):
        self.received = []

    def do_post(self, headers, path, peer, data):  # noqa: ARG002
        self.received.append(data)
        return 202, 'Accepted', b''


class Run:
    def __init__(self, scenario, prefix, lines=False):
        from mcx.checks import c08
        self.scenario = scenario
        self.s = sched.Scheduler(prefix)
        if lines:
            self.s.line_anchors = LINE_ANCHORS
        world.install()
        w = world.World()
        world.ENV.sched = self.s
        try:
            self.w = w
            self.p = w.mk_provider()
            # one subscriber for all actions of the StateEvent service, requests built by the real consumer-side class
            self.rec = Recorder()
            srv = world.FakeHttpServer(w.wire, '10.0.1.1', 7001)
            srv.dispatcher.register_instance('notify', self.rec)
            self._subscribe()
        except BaseException:
            world.ENV.sched = None
            raise
        self.snaps = {}

        def on_commit(mdib, tr):
            self.snaps[mdib.mdib_version] = canon.snapshot(mdib, with_lookup=False)
        self.p.mdib.post_commit_handler = on_commit
        for j, (kind, n) in enumerate(scenario):
            self.s.spawn(self._writer(kind, n), f'W{j}:{kind}x{n}')

    def _subscribe(self):
        import types
        from sdc11073.consumer.subscription import ConsumerSubscription
        from sdc11073.xml_types import eventing_types
        from sdc11073.xml_types.dpws_types import DeviceEventingFilterDialectURI
        actions = self.p.mdib.sdc_definitions.Actions
        names = ['EpisodicMetricReport', 'EpisodicAlertReport', 'EpisodicComponentReport', 'EpisodicContextReport',
                 'EpisodicOperationalStateReport', 'Waveform', 'DescriptionModificationReport']
        ft = eventing_types.FilterType()
        ft.text = ' '.join(getattr(actions, a).value for a in names)
        ft.Dialect = DeviceEventingFilterDialectURI.ACTION
        mgr = self.p._subscriptions_managers['StateEvent']
        hosted_address = None
        for svc in self.p.hosted_services.dpws_hosted_services.values():
            if svc.subscriptions_manager is mgr:
                base = self.p.base_urls[0]
                hosted_address = f'{base.scheme}://{base.netloc}/{base.path}/{svc.path_element}'
        owner = world.Owner('subscriber', '10.0.1.9')
        cls = world.mk_loop_client_class(self.w.wire, owner)
        clients = {}

        def get_client(address):
            from urllib.parse import urlparse
            netloc = urlparse(address).netloc
            if netloc not in clients:
                clients[netloc] = cls(netloc, 5, None, None, self.p.mdib.sdc_definitions, self.p.msg_reader,
                                      supported_encodings=[], request_encodings=[])
            return clients[netloc]
        hosted = types.SimpleNamespace(EndpointReference=[types.SimpleNamespace(Address=hosted_address)])
        sub = ConsumerSubscription(self.p.msg_factory, self.p.mdib.data_model, get_client, hosted, ft,
                                   'http://10.0.1.1:7001/notify/A', None, 'verif')
        sub.subscribe(15)
        if not sub.is_subscribed:
            raise RuntimeError('harness: could not subscribe the recording subscriber')

    def _writer(self, kind, n):
        def body():
            for name in WRITER_EVENTS[kind][:n]:
                A.EVENT_BY_NAME[name](self.p)
        return body

    def go(self):
        try:
            self.s.run()
        finally:
            world.ENV.sched = None
        return self

    def judge(self):
        problems = []
        for t in self.s.threads:
            if t.exc is not None:
                problems.append((f'writer-raised/{t.name.split(":")[1]}', repr(t.exc)[:200]))
        if isinstance(self.s.error, sched.Deadlock):
            problems.append(('deadlock', str(self.s.error)[:200]))
        versions = []
        reader = self.p.msg_reader
        for data in self.rec.received:
            root = c04.parse_body(data)
            if root is None:
                continue
            name = etree.QName(root).localname
            if name not in c04.STATE_REPORTS and name != 'DescriptionModificationReport':
                continue
            v = int(root.get('MdibVersion'))
            versions.append(v)
            snap = self.snaps.get(v)
            if snap is None:
                problems.append((f'{name}/unknown-version', f'report states MdibVersion {v}, commits were {sorted(self.snaps)}'))
                continue
            content = canon.content(snap)
            # every state in the report equals the content committed at the version the report is labelled with
            for st in root.iter():
                if not isinstance(st.tag, str):
                    continue
                ln = etree.QName(st).localname
                if st.get('DescriptorHandle') is None or st.get('StateVersion') is None and ln not in ('State',):
                    continue
                if ln in ('MetricState', 'AlertState', 'ComponentState', 'OperationalState', 'ContextState', 'State'):
                    forced = self.p.mdib.data_model.pm_names.RealTimeSampleArrayMetricState if name == 'WaveformStream' else None
                    try:
                        parsed = reader._mk_state_container_from_node(st, forced)
                    except Exception:  # noqa: BLE001
                        continue
                    key = canon.key_of(parsed)
                    if canon.canon_obj(parsed) != content.get(key):
                        other = [ov for ov, s in self.snaps.items() if canon.content(s).get(key) == canon.canon_obj(parsed)]
                        problems.append((f'{name}/state-differs-from-labelled-version',
                                         {'labelled': v, 'entity': str(key), 'content_matches_versions': other}))
        if versions != sorted(versions):
            problems.append(('reports-not-in-version-order', {'delivered_versions': versions}))
        want = sorted(self.snaps)
        if sorted(set(versions)) != want:
            problems.append(('committed-version-without-report', {'delivered': sorted(set(versions)), 'committed': want}))
        return problems, tuple(versions)


def _key(arg):
    return ' || '.join(f'{k}x{n}' for k, n in arg[0]) + f' /bound={arg[1]}' + ('/statements' if len(arg) > 3 else '')


def _explore(acc, job):
    arg, start, expand_only = job
    scenario, bound, cap = arg[:3]
    lines = len(arg) > 3
    _weight = _line_weight if lines else globals()['_weight']
    name = ' || '.join(f'{k}x{n}' for k, n in scenario) + (' [statements]' if lines else '')
    outcomes = set()
    found = {}

    def one(prefix):
        r = Run(scenario, prefix, lines).go()
        problems, versions = r.judge()
        if lines:
            acc.add('statement-points', r.s.line_points)
        return r.s.trace, (versions, problems, r.s.choices())

    def on_exec(prefix, trace, payload):
        versions, problems, choices = payload
        acc.transition(len(trace))
        acc.trace()
        acc.evals()
        acc.add('scheduling-points', len(trace))
        acc.add(f'schedules[writers {name}]')
        outcomes.add((versions, tuple(p[0] for p in problems)))
        acc.state(h64(('c04b', name, tuple(choices))))
        for kind, detail in problems:
            if kind not in found:
                found[kind] = (detail, choices, sched.preemptions(trace))

    if expand_only:
        n, kids = sched.explore(one, bound, on_execution=on_exec, weight=_weight, start=[[]], depth_limit=0)
        acc.emit((_key(arg), kids))
        if len(acc.samples) < 4:
            acc.sample({'writers': name, 'first_level_alternatives': len(kids)})
    else:
        n, capped = sched.explore(one, bound, max_executions=cap, on_execution=on_exec, weight=_weight, start=start)
        if capped:
            acc.cap(f'writers[{name}]', f'a subtree was stopped after {n} schedules')
    for o in outcomes:
        acc.nontrivial(h64(('c04b', name, o)))
    for kind, (detail, choices, pre) in found.items():
        acc.violation(f'concurrent-writers/{kind}/{name}', {'scenario': name, 'detail': detail, 'schedule': choices, 'preemptions': pre},
                      case={'kind': 'writers', 'scenario': [list(x) for x in scenario], 'schedule': choices, 'lines': lines})


def scenarios(quick):
    kinds = list(WRITER_EVENTS)
    out = []
    for a, b in (itertools.combinations(kinds, 2) if quick else itertools.combinations_with_replacement(kinds, 2)):
        out.append([(a, 1), (b, 1)])
    out.append([('rt', 1), ('rt', 1)])
    out += [[('metric', 2), ('alert', 2)], [('rt', 2), ('descr', 1)], [('context', 2), ('metric', 1)]]
    if not quick:
        out += [[(a, 1), (b, 1), (c, 1)] for a, b, c in itertools.combinations(kinds, 3)]
        out += [[(a, 2), (b, 2)] for a, b in itertools.combinations(kinds, 2)]
    return out


def run(ctx):
    kinds = list(WRITER_EVENTS)
    if ctx.quick:
        jobs = [(s, 2, 1500) for s in scenarios(True)]
    else:
        # two writers with one transaction each: bound 3; two transactions each or three writers: bound 2
        jobs = [([(a, 1), (b, 1)], 3, 4000) for a, b in itertools.combinations_with_replacement(kinds, 2)]
        jobs += [([(a, 2), (b, 2)], 2, 4000) for a, b in itertools.combinations(kinds, 2)]
        jobs += [([(a, 1), (b, 1), (c, 1)], 2, 4000) for a, b, c in itertools.combinations(kinds, 3)]
        jobs += [([('metric', 2), ('alert', 2)], 3, 4000), ([('rt', 2), ('descr', 1)], 3, 4000), ([('context', 2), ('metric', 1)], 3, 4000)]
    line_sc = [[('metric', 1), ('alert', 1)], [('rt', 1), ('descr', 1)], [('context', 1), ('metric', 1)]]
    if not ctx.quick:
        line_sc = [[(a, 1), (b, 1)] for a, b in itertools.combinations(kinds, 2)] + [[('metric', 2), ('metric', 1)]]
    jobs += [(s, 1 if ctx.quick else 2, 3000, 'lines') for s in line_sc]
    ctx.note('writer_scenarios', len(jobs))
    ctx.note('writer_preemption_bounds', sorted({j[1] for j in jobs}))
    sched.run_partitioned(ctx, _explore, ctx.rotate(jobs), _key, group=8)


def replay(ctx, case):
    sc = [tuple(x) for x in case['scenario']]
    r = Run(sc, case['schedule'], bool(case.get('lines'))).go()
    problems, versions = r.judge()
    for kind, detail in problems:
        ctx.violation(f'concurrent-writers/{kind}', detail)
    return {'versions': list(versions), 'problems': [p[0] for p in problems]}
