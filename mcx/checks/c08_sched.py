"""C08 (b): subscription requests racing with report delivery and housekeeping - schedule exploration part of C08.

Renew / GetStatus are served in the HTTP handler thread, reports are sent from the thread that commits the transaction,
expired subscriptions are collected by the housekeeping thread; the subscription object is shared by all three and most
of its methods take no lock. This part runs those threads under the baton scheduler with a scheduling point at every lock
operation *and at every statement of the subscription / subscription manager code* (sys.settrace line events, see
mcx.sched.LineAnchors) and executes every interleaving with at most `bound` preemptions.

Scenario: subscriber A subscribed for 11 s, 8 s have passed (3 s left), then concurrently
  R: Renew(5) | Renew(99) | GetStatus            (A is alive before and after the request, whatever the order)
  W: a metric report                              (must be handed to A: "alive at send time")
  H: one housekeeping pass                        (must not remove A)
Oracle at the end of every schedule: the request was answered without fault; A got the report exactly once; A is still in
the table and a following GetStatus is answered with the remaining time the reference model computes.
"""
from __future__ import annotations

from mcx import alphabet as A
from mcx import sched, world
from mcx.checks import c08
from mcx.runner import h64

ANCHORS = sched.LineAnchors([
    ('provider/subscriptionmgr_base.py', '*'),
    ('provider/subscriptionmgr.py', '*'),
    ('provider/subscriptionmgr_async.py', '*'),
], opcode_level=[('provider/subscriptionmgr_base.py', 'renew')])
REQUESTS = {'renew5': ('renew', 5), 'renew99': ('renew', 99), 'status': ('status', None)}
OTHERS = {'report': ('W',), 'housekeeping': ('H',), 'report+housekeeping': ('W', 'H')}
SUBSCRIBED_FOR = 11
ELAPSED = 8


def _weight(label):
    # statement points and the subscription table lock cost 1; other lock points (mdib tables, client pool) are not
    # used as preemption places here (they are explored by C04/C07)
    if label.startswith('line:') or 'subscription' in label or label == 'sleep':
        return 1
    return 99


class Run:
    def __init__(self, scenario, prefix):
        self.mgr_name, self.req, self.other = scenario
        self.s = sched.Scheduler(prefix)
        self.s.line_anchors = ANCHORS
        world.install()
        try:
            self.sim = c08.Sim(self.mgr_name, self.s)
            st, probs = self.sim.event(('sub', 'A', SUBSCRIBED_FOR))
            assert not probs, probs
            self.sim.event(('tick', ELAPSED))
        except BaseException:
            world.ENV.sched = None
            raise
        self.req_result = None
        self.req_fault = None
        self.n0 = len(self.sim.w.wire.log)
        self.s.spawn(self._request, f'R:{self.req}')
        for t in OTHERS[self.other]:
            self.s.spawn(self._report if t == 'W' else self._housekeeping, t)

    def _request(self):
        from sdc11073.pysoap.soapclient import HTTPReturnCodeError
        kind, arg = REQUESTS[self.req]
        sub = self.sim.subs['A']
        try:
            self.req_result = sub.renew(arg) if kind == 'renew' else sub.get_status()
            self.req_fault = not sub.is_subscribed
        except HTTPReturnCodeError:
            self.req_fault = True

    def _report(self):
        A.apply(self.sim.p, 'metric(N1,1)')

    def _housekeeping(self):
        # one pass of the real loop body: the sleep is a scheduling point of zero virtual length and ends the loop
        mgr = self.sim.mgr

        def once(seconds):  # noqa: ARG001
            mgr._run_housekeeping_thread = False
        world.ENV.sleep_hook = once
        try:
            mgr._do_housekeeping()
        finally:
            world.ENV.sleep_hook = None

    def go(self):
        try:
            self.s.run()
        finally:
            world.ENV.sched = None
        return self

    def judge(self):
        problems = []
        sim = self.sim
        for t in self.s.threads:
            if t.exc is not None:
                problems.append((f'thread-raised/{t.name.split(":")[0]}', repr(t.exc)[:200]))
        if isinstance(self.s.error, sched.Deadlock):
            problems.append(('deadlock', str(self.s.error)[:200]))
        kind, arg = REQUESTS[self.req]
        if self.req_fault:
            problems.append((f'{kind}-of-live-subscription-answered-with-fault', ''))
        want_remaining = SUBSCRIBED_FOR - ELAPSED
        if kind == 'renew' and not self.req_fault:
            want_remaining = min(arg, c08.MAX_DURATION)
            if self.req_result is None or abs(self.req_result - want_remaining) > 0.011:
                problems.append(('renew-granted', f'{self.req_result}, expected {want_remaining}'))
        if kind == 'status' and not self.req_fault and (self.req_result is None or abs(self.req_result - want_remaining) > 0.011):
            problems.append(('status-reports', f'{self.req_result}, expected {want_remaining}'))
        got = [n for n, k, _ in sim._deliveries(self.n0) if k == 'notification']
        if 'W' in OTHERS[self.other] and got != ['A']:
            problems.append(('report-not-handed-to-live-subscriber', f'deliveries {got}; the subscription of A is alive before, '
                                                                      f'during and after the {kind} request'))
        # afterwards (sequentially): still known, remaining time as the model says
        table = sim._table()
        if not any(t[0] == 'A' for t in table):
            problems.append(('live-subscription-removed', f'table after the run: {table}'))
        else:
            sub = sim.subs['A']
            sub.is_subscribed = True
            try:
                rem = sub.get_status()
                if not sub.is_subscribed:
                    problems.append(('status-after-race-answered-with-fault', ''))
                elif rem is None or abs(rem - want_remaining) > 0.011:
                    problems.append(('status-after-race-reports', f'{rem}, expected {want_remaining}'))
            except Exception as ex:  # noqa: BLE001
                problems.append(('status-after-race-answered-with-fault', repr(ex)[:100]))
        outcome = (tuple(got), self.req_result if self.req_result is None else round(self.req_result, 2))
        return problems, outcome

    def close(self):
        self.sim.w.close()


_WARM = []


def _key(arg):
    return '/'.join(arg[0]) + f'/bound={arg[1]}'


def _explore(acc, job):
    arg, start, expand_only = job
    scenario, bound, cap = arg
    name = f'{scenario[0]}: {scenario[1]} || {scenario[2]}'
    outcomes = set()
    found = {}

    if not _WARM:
        # CPython 3.12 starts delivering per-instruction trace events for a code object only after the first traced call
        # of it in the process: one throw-away run, so that the default schedule already has all scheduling points
        _WARM.append(1)
        Run((scenario[0], 'renew5', 'report'), []).go().close()      # a scenario that calls renew()

    def one(prefix):
        r = Run(scenario, prefix).go()
        try:
            problems, outcome = r.judge()
        finally:
            r.close()
        acc.add('statement-points', r.s.line_points)
        return r.s.trace, (outcome, problems, r.s.choices())

    def on_exec(prefix, trace, payload):
        outcome, problems, choices = payload
        acc.transition(len(trace))
        acc.trace()
        acc.evals()
        acc.add(f'race-schedules[{name}]')
        outcomes.add(outcome)
        acc.state(h64(('c08b', name, tuple(choices))))
        for kind, detail in problems:
            if kind not in found:
                found[kind] = (detail, choices, sched.preemptions(trace))

    if expand_only:
        n, kids = sched.explore(one, bound, on_execution=on_exec, weight=_weight, start=[[]], depth_limit=0)
        acc.emit((_key(arg), kids))
    else:
        n, capped = sched.explore(one, bound, max_executions=cap, on_execution=on_exec, weight=_weight, start=start)
        if capped:
            acc.cap(f'race[{name}]', f'a subtree was stopped after {n} schedules')
    for o in outcomes:
        acc.nontrivial(h64(('c08b', name, o)))
    for kind, (detail, choices, pre) in found.items():
        acc.violation(f'race/{scenario[0]}/{kind}/{scenario[1]}||{scenario[2]}',
                      {'scenario': name, 'detail': detail, 'schedule': choices, 'preemptions': pre},
                      case={'kind': 'race', 'scenario': list(scenario), 'schedule': choices})


def scenarios(quick):
    out = []
    if quick:
        for mgr in ('path-sync', 'ref-async'):
            out += [(mgr, 'renew5', 'report'), (mgr, 'renew5', 'housekeeping'), (mgr, 'status', 'report')]
    else:
        for mgr in c08.MANAGERS:
            for req in REQUESTS:
                for other in OTHERS:
                    out.append((mgr, req, other))
    return out


def run(ctx):
    bound = 1 if ctx.quick else 2
    if ctx.quick:
        jobs = [(sc, 1, 3000) for sc in scenarios(True)]
    else:
        # all 36 scenarios with one preemption; two preemptions for the requests that shorten the subscription
        jobs = [(sc, 1, 20000) for sc in scenarios(False)]
        jobs += [(sc, 2, 6000) for sc in scenarios(False) if sc[1] == 'renew5' and sc[2] != 'report+housekeeping']
    ctx.note('race_scenarios', len(jobs))
    ctx.note('race_preemption_bound', bound)
    ctx.note('race_rule', 'Renew(5)/Renew(99)/GetStatus of a live subscription (11 s granted, 8 s elapsed) || metric report || one '
                          'housekeeping pass; scheduling points at every lock operation and every statement of '
                          'provider/subscriptionmgr*.py; all schedules within the preemption bound')
    sched.run_partitioned(ctx, _explore, ctx.rotate(jobs), _key, group=8)


def replay(ctx, case):
    r = Run(tuple(case['scenario']), case['schedule']).go()
    problems, outcome = r.judge()
    r.close()
    for kind, detail in problems:
        ctx.violation(f'race/{kind}', detail)
    return {'outcome': str(outcome), 'problems': [p[0] for p in problems]}
