"""C10 (b): context association invariants when a SetContextState request races with a provider-side context change -
schedule exploration part of the C10 check.

Threads: R = a SetContextState request (real message converter entry point, then the operation worker body), W = a direct
provider change of the same context descriptor (new associated patient / location change). Every interleaving with at
most `bound` preemptions at lock operations is executed. Oracle, evaluated on the table recorded at every commit: at most
one associated state per context descriptor; a state that stops being associated in a commit is Dis with
UnbindingMdibVersion = that commit's version and an end time; a state that becomes associated has BindingMdibVersion =
that commit's version.
"""
from __future__ import annotations

from mcx import alphabet as A
from mcx import sched, world
from mcx.runner import h64

OP = 'opSetPatCtx'
WRITERS = ['patient-new(B)', 'patient-entity-new(C)', 'patient-disassociate']
PROPOSALS = [('new', 'Assoc'), ('upd0', 'Assoc'), ('upd0', 'Dis'), ('new', 'Pre')]
PRE = ['patient-new(A)']


# statement-granularity pass: every statement of the SetContextState handler chain is a scheduling point
LINE_ANCHORS = sched.LineAnchors([
    ('productandroles/contextprovider.py', '*'),
    ('provider/sco.py', '*'),
    ('provider/operations.py', '*'),
    ('provider/porttypes/contextserviceimpl.py', '*'),
    ('mdib/providermdib.py', '_transaction_manager'),
    ('mdib/providermdibxtra.py', 'set_location'),
    ('mdib/transactions.py', 'disassociate_all'),
    ('mdib/transactions.py', 'mk_context_state'),
    ('mdib/transactions.py', 'write_entity'),
])


def _line_weight(label):
    return 1 if label.startswith('line:') or 'mdib_lock' in label or '_tr_lock' in label else 99


def _table(mdib):
    return {s.Handle: (s.DescriptorHandle, s.ContextAssociation.value if s.ContextAssociation is not None else 'No',
                       s.BindingMdibVersion, s.UnbindingMdibVersion, s.BindingEndTime is not None, s.BindingStartTime is not None)
            for s in mdib.context_states.objects}


class Run:
    def __init__(self, scenario, prefix, lines=False):
        self.proposal, self.writer = scenario
        self.s = sched.Scheduler(prefix)
        if lines:
            self.s.line_anchors = LINE_ANCHORS
        world.install()
        w = world.World()
        self.w = w
        world.ENV.sched = self.s      # before the provider exists: its locks become scheduler-aware
        try:
            self.p = w.mk_provider()
            for name in PRE:
                A.EVENT_BY_NAME[name](self.p)
        except BaseException:
            world.ENV.sched = None
            raise
        self.tables = {self.p.mdib.mdib_version: _table(self.p.mdib)}

        def on_commit(mdib, tr):
            self.tables[mdib.mdib_version] = _table(mdib)
        self.p.mdib.post_commit_handler = on_commit
        self.request = self._mk_request()
        self.response = None
        self.s.spawn(self._req, 'R:SetContextState')
        self.s.spawn(lambda: A.EVENT_BY_NAME[self.writer](self.p), f'W:{self.writer}')

    def _mk_request(self):
        from sdc11073.xml_types import msg_types
        from sdc11073.xml_types.addressing_types import HeaderInformationBlock
        p = self.p
        pm = A._pm()
        what, assoc = self.proposal
        descr = p.mdib.descriptions.handle.get_one(A.PAT)
        st = p.mdib.data_model.mk_state_container(descr)
        if what == 'new':
            st.Handle = A.PAT        # a proposed new state carries the descriptor handle as handle
            st.CoreData.Givenname = 'R'
        else:
            handles = sorted(s.Handle for s in p.mdib.context_states.descriptor_handle.get(A.PAT, []))
            old = p.mdib.context_states.handle.get_one(handles[0])
            st = old.mk_copy()
            st.CoreData.Familyname = 'R'
        ca = pm.ContextAssociation
        st.ContextAssociation = {'Assoc': ca.ASSOCIATED, 'Dis': ca.DISASSOCIATED, 'Pre': ca.PRE_ASSOCIATION}[assoc]
        payload = msg_types.SetContextState()
        payload.OperationHandleRef = OP
        payload.ProposedContextState.append(st)
        path = f'/{p.path_prefix}/StateEvent'
        inf = HeaderInformationBlock(action=payload.action, addr_to=f'http://10.0.0.1:8000{path}')
        return path, p.msg_factory.mk_soap_message(inf, payload=payload).serialize()

    def _req(self):
        path, data = self.request
        self.response = self.p._msg_converter.do_post(world.mk_headers({'Host': '10.0.0.1:8000'}), path, ('10.0.0.2', 40001), data)
        world.drain_operations(self.p)

    def go(self):
        try:
            self.s.run()
        finally:
            world.ENV.sched = None
        return self

    def judge(self):
        problems = []
        for t in self.s.threads:
            if t.exc is not None and not isinstance(t.exc, A.Disabled):
                problems.append((f'thread-raised/{t.name.split(":")[0]}', repr(t.exc)[:200]))
        if isinstance(self.s.error, sched.Deadlock):
            problems.append(('deadlock', str(self.s.error)[:200]))
        if self.response is None or self.response[0] != 200:
            problems.append(('request-not-answered', str(self.response)[:200]))
        versions = sorted(self.tables)
        for prev, cur in zip(versions, versions[1:]):
            before, after = self.tables[prev], self.tables[cur]
            per = {}
            for h, (d, assoc, bind, unbind, has_end, has_start) in after.items():
                if assoc == 'Assoc':
                    per.setdefault(d, []).append(h)
                was = before.get(h)
                was_assoc = was is not None and was[1] == 'Assoc'
                if was_assoc and assoc != 'Assoc':
                    if assoc != 'Dis':
                        problems.append(('formerly-associated-state-not-marked-disassociated', f'{h}: {assoc} at v{cur}'))
                    elif unbind != cur:
                        problems.append(('unbinding-version-differs-from-commit-version', f'{h}: Unbinding={unbind}, commit v{cur}'))
                    elif not has_end:
                        problems.append(('binding-end-time-missing', f'{h} at v{cur}'))
                if assoc == 'Assoc' and not was_assoc and bind != cur:
                    problems.append(('binding-version-differs-from-commit-version', f'{h}: Binding={bind}, commit v{cur}'))
                if was is not None and was[1] == 'Dis' and assoc == 'Dis' and (unbind != was[3]):
                    problems.append(('unbinding-version-of-disassociated-state-rewritten', f'{h}: {was[3]} -> {unbind} at v{cur}'))
            for d, hs in per.items():
                if len(hs) > 1:
                    problems.append(('more-than-one-associated-state', f'{d}: {sorted(hs)} at v{cur}'))
        final = tuple(sorted((h, v[1]) for h, v in self.tables[versions[-1]].items()))
        return problems, (len(versions), tuple(a for _, a in final))


def _key(arg):
    return f'{arg[0][0][0]}:{arg[0][0][1]} || {arg[0][1]} /bound={arg[1]}' + ('/statements' if len(arg) > 3 else '')


def _explore(acc, job):
    arg, start, expand_only = job
    scenario, bound, cap = arg[:3]
    lines = len(arg) > 3
    name = f'set({scenario[0][0]}:{scenario[0][1]}) || {scenario[1]}' + (' [statements]' if lines else '')
    outcomes = set()
    found = {}
    weight = _line_weight if lines else None

    def one(prefix):
        r = Run(scenario, prefix, lines).go()
        if lines:
            acc.add('statement-points', r.s.line_points)
        problems, outcome = r.judge()
        return r.s.trace, (outcome, problems, r.s.choices())

    def on_exec(prefix, trace, payload):
        outcome, problems, choices = payload
        acc.transition(len(trace))
        acc.trace()
        acc.evals()
        acc.add(f'schedules[{name}]')
        outcomes.add(outcome)
        acc.state(h64(('c10b', name, tuple(choices))))
        for kind, detail in problems:
            if kind not in found:
                found[kind] = (detail, choices, sched.preemptions(trace))

    if expand_only:
        n, kids = sched.explore(one, bound, on_execution=on_exec, weight=weight, start=[[]], depth_limit=0)
        acc.emit((_key(arg), kids))
    else:
        n, capped = sched.explore(one, bound, max_executions=cap, on_execution=on_exec, weight=weight, start=start)
        if capped:
            acc.cap(f'race[{name}]', f'a subtree was stopped after {n} schedules')
    for o in outcomes:
        acc.nontrivial(h64(('c10b', name, o)))
    for kind, (detail, choices, pre) in found.items():
        acc.violation(f'race/{kind}/{name}', {'scenario': name, 'detail': detail, 'schedule': choices, 'preemptions': pre},
                      case={'kind': 'race', 'scenario': [list(scenario[0]), scenario[1]], 'schedule': choices, 'lines': lines})


def run(ctx):
    bound = 1 if ctx.quick else 2
    jobs = [((pr, wr), bound, 4000 if ctx.quick else 60000) for pr in (PROPOSALS[:2] if ctx.quick else PROPOSALS) for wr in WRITERS]
    jobs += [((pr, wr), 1, 4000 if ctx.quick else 60000, 'lines') for pr in (PROPOSALS[:1] if ctx.quick else PROPOSALS)
             for wr in (WRITERS[:2] if ctx.quick else WRITERS)]
    ctx.note('race_scenarios', len(jobs))
    ctx.note('race_preemption_bound', bound)
    sched.run_partitioned(ctx, _explore, ctx.rotate(jobs), _key, group=8)


def replay(ctx, case):
    sc = (tuple(case['scenario'][0]), case['scenario'][1])
    r = Run(sc, case['schedule'], bool(case.get('lines'))).go()
    problems, outcome = r.judge()
    for kind, detail in problems:
        ctx.violation(f'race/{kind}', detail)
    return {'outcome': str(outcome), 'problems': [p[0] for p in problems]}
