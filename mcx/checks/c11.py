"""C11 - every lookup always agrees with a scan of the stored objects (tables and MDIBs)."""
from __future__ import annotations

import collections

from mcx import alphabet as A
from mcx import canon, hist, mdibwalk
from mcx.runner import h64

PROPERTY = 'C11'
TECHNIQUE = ('explicit-state BFS over add/update+reindex/remove/clear/rejected-add histories on the real MultiKeyLookup '
             'tables with canonical-state dedup, plus history exploration of the real provider/consumer MDIBs; invariant = '
             'every index equals an independent regrouping of table.objects')


# ------------------------------------------------------------------ (a) table level
class Stub:
    is_multi_state = False

    def __init__(self, idx):
        self.idx = idx
        self.Handle = 'h1'
        self.DescriptorHandle = 'h1'
        self.parent_handle = None
        self.NODETYPE = 'T1'
        self.ConditionSignaled = None
        self.Source = None
        self.DescriptorVersion = 0
        self.StateVersion = 0
        self.reference_parameters = []
        self.path_suffix = 's1'
        self.netloc = 'n1'

    def attrs(self, names):
        out = []
        for n in names:
            v = getattr(self, n)
            out.append(tuple(v) if isinstance(v, list) else v)
        return tuple(out)

    def __repr__(self):
        return f'o{self.idx}'


def _tables():
    from sdc11073 import multikey
    from sdc11073.mdib import mdibbase

    def generic():
        t = multikey.MultiKeyLookup()
        t.add_index('handle', multikey.UIndexDefinition(lambda o: o.Handle))
        t.add_index('parent', multikey.IndexDefinition(lambda o: o.parent_handle, index_none_values=False))
        t.add_index('source', multikey.IndexDefinition1n(lambda o: o.Source, index_none_values=False))
        return t

    def subscriptions():
        # same declaration as SubscriptionsManagerBase._subscriptions
        from sdc11073.provider.subscriptionmgr_base import _mk_dispatch_identifier
        t = multikey.MultiKeyLookup()
        t.add_index('dispatch_identifier', multikey.UIndexDefinition(
            lambda o: _mk_dispatch_identifier(o.reference_parameters, o.path_suffix)))
        t.add_index('identifier', multikey.UIndexDefinition(lambda o: o.Handle))
        t.add_index('netloc', multikey.IndexDefinition(lambda o: o.netloc))
        return t

    return {
        'descriptors': (mdibbase.DescriptorsLookup, {'Handle': ['h1', 'h2'], 'parent_handle': [None, 'p'],
                                                     'ConditionSignaled': [None, 'c'], 'Source': [None, ['a'], ['a', 'b']],
                                                     'NODETYPE': ['T1', 'T2']}, ('Handle',)),
        'states': (mdibbase.StatesLookup, {'DescriptorHandle': ['h1', 'h2'], 'NODETYPE': ['T1', None]},
                   ('DescriptorHandle',)),
        'multistates': (mdibbase.MultiStatesLookup, {'Handle': ['h1', 'h2', None], 'DescriptorHandle': ['h1', 'h2'],
                                                     'NODETYPE': ['T1', 'T2']}, ('Handle',)),
        'generic': (generic, {'Handle': ['h1', 'h2'], 'parent_handle': [None, 'p'], 'Source': [None, [], ['a'], ['a', 'b']]},
                    ('Handle',)),
        'subscriptions': (subscriptions, {'Handle': ['h1', 'h2'], 'path_suffix': ['s1', 's2'], 'netloc': ['n1', 'n2']},
                          ('Handle', 'path_suffix')),
    }


def _ops(n_obj, domains):
    ops = []
    for i in range(n_obj):
        for how in ('add_object', 'add_object_no_lock', 'add_objects'):
            ops.append(('add', how, i))
        for how in ('remove_object', 'remove_object_no_lock', 'remove_objects'):
            ops.append(('remove', how, i))
        for attr, values in domains.items():
            for vi in range(len(values)):
                ops.append(('set', attr, i, vi))
        for attr, values in domains.items():
            if any(isinstance(v, list) for v in values):
                ops.append(('inplace', attr, i, 'append'))
                ops.append(('inplace', attr, i, 'pop'))
    ops.append(('clear',))
    ops.append(('add_both',))
    ops.append(('update_objects',))
    return ops


class TableSim:
    """Real table + harness-side reference model (member set)."""

    def __init__(self, factory, domains, unique_attrs, n_obj):
        self.table = factory()
        self.objs = [Stub(i) for i in range(n_obj)]
        for i, o in enumerate(self.objs):  # distinct start values where possible
            for attr, values in domains.items():
                setattr(o, attr, _copy(values[0]))
        self.members = set()
        self.domains = domains
        self.unique_attrs = unique_attrs

    def _unique_key(self, o):
        return tuple(getattr(o, a) for a in self.unique_attrs)

    def _collides(self, a, b):
        """Two objects collide if they agree on any attribute that feeds a unique index (None is not indexed there)."""
        none_indexed = self.table.__class__.__name__ != 'MultiStatesLookup'
        for attr in self.unique_attrs:
            va, vb = getattr(a, attr), getattr(b, attr)
            if va is None and not none_indexed:
                continue
            if va == vb:
                return True
        return False

    def _would_collide(self, o):
        return any(self._collides(o, self.objs[m]) for m in self.members if self.objs[m] is not o)

    def apply(self, op):
        """Return (label, problem|None); an exception no reference-model rule expects is a problem, not a harness error."""
        try:
            return self._apply(op)
        except Exception as ex:  # noqa: BLE001
            return f'{op[0]}-raised', f'{".".join(map(str, op))} raised {type(ex).__name__}: {str(ex)[:80]}'

    def _apply(self, op):
        kind = op[0]
        t = self.table
        if kind == 'add':
            _, how, i = op
            o = self.objs[i]
            collide = i not in self.members and self._would_collide(o)
            try:
                if how == 'add_objects':
                    t.add_objects([o])
                else:
                    getattr(t, how)(o)
            except KeyError:
                if not collide:
                    return 'add-raised', f'{how}({o}) raised KeyError without a duplicate unique key'
                return 'add-rejected', None
            if collide:
                return 'add', f'{how}({o}) accepted a duplicate unique key {self._unique_key(o)}'
            self.members.add(i)
            return 'add', None
        if kind == 'remove':
            _, how, i = op
            o = self.objs[i]
            if how == 'remove_objects':
                t.remove_objects([o])
            else:
                getattr(t, how)(o)
            self.members.discard(i)
            return 'remove', None
        if kind == 'set':
            _, attr, i, vi = op
            o = self.objs[i]
            old = getattr(o, attr)
            new = _copy(self.domains[attr][vi])
            setattr(o, attr, new)
            if i in self.members:
                if attr in self.unique_attrs and self._would_collide(o):
                    setattr(o, attr, old)  # outside the alphabet: an update must not create a duplicate unique key
                    return 'set-skipped', None
                t.update_object(o)
            return 'set', None
        if kind == 'inplace':
            _, attr, i, how = op
            o = self.objs[i]
            cur = getattr(o, attr)
            if not isinstance(cur, list):
                return 'inplace-skipped', None
            if how == 'append':
                if len(cur) >= 3:
                    return 'inplace-skipped', None
                cur.append('z' if 'z' not in cur else 'a')   # in-place edit of the key list, then re-index
            else:
                if not cur:
                    return 'inplace-skipped', None
                cur.pop(0)
            if i in self.members:
                t.update_object(o)
            return 'inplace', None
        if kind == 'clear':
            t.clear()
            self.members.clear()
            return 'clear', None
        if kind == 'add_both':
            objs = [o for i, o in enumerate(self.objs) if i not in self.members]
            collide = any(self._collides(a, b) for a in objs for b in objs if a is not b) \
                or any(self._would_collide(o) for o in objs)
            if collide:
                return 'add_both-skipped', None
            t.add_objects(objs)
            self.members = set(range(len(self.objs)))
            return 'add_both', None
        if kind == 'update_objects':
            t.update_objects([self.objs[i] for i in sorted(self.members)])
            return 'update_objects', None
        raise ValueError(op)

    def check(self):
        problems = canon.scan_ok(self.table)
        in_table = {o.idx for o in self.table.objects if o is not None}
        if in_table != self.members:
            problems.append(f'table.objects holds {sorted(in_table)} but the reference model holds {sorted(self.members)}')
        # public look-ups agree with a scan (unique indices through get_one)
        from sdc11073 import multikey
        for name, idx in self.table._idx_defs.items():
            if isinstance(idx, multikey.UIndexDefinition):
                for i in self.members:
                    o = self.objs[i]
                    try:
                        key = idx._get_key_func(o)
                    except (TypeError, AttributeError):
                        continue
                    if key is None and not idx._index_none_values:
                        continue
                    got = getattr(self.table, name).get_one(key, allow_none=True)
                    if got is not o:
                        problems.append(f'{name}.get_one({key!r}) returns {got!r}, scan finds {o!r}')
        # every key any object of the pool could have (also keys nothing in the table has any more): get_one / get answer
        # from the stored objects only - an answer remembered from an earlier call must not survive a change of the table
        for name, idx in self.table._idx_defs.items():
            all_keys = set()
            scan = {}
            for o in self.objs:
                for vals in self._possible_keys(idx, o):
                    all_keys.add(vals)
            for i in self.members:
                o = self.objs[i]
                try:
                    k = idx._get_key_func(o)
                except (TypeError, AttributeError):
                    continue
                ks = k if isinstance(k, list) else [k]
                for kk in ks:
                    if kk is None and not idx._index_none_values:
                        continue
                    scan.setdefault(kk, []).append(o)
            for key in sorted(all_keys, key=repr):
                want = scan.get(key, [])
                try:
                    got = getattr(self.table, name).get_one(key, allow_none=True)
                    outcome = ('one', got)
                except ValueError:
                    outcome = ('several', None)
                except Exception as ex:  # noqa: BLE001
                    outcome = ('raised', repr(ex)[:60])
                if len(want) == 0 and outcome != ('one', None):
                    problems.append(f'{name}.get_one({key!r}) answers {outcome} although no stored object has that key')
                elif len(want) == 1 and not (outcome[0] == 'one' and outcome[1] is want[0]):
                    problems.append(f'{name}.get_one({key!r}) answers {outcome}, scan finds exactly {want[0]!r}')
                elif len(want) > 1 and outcome[0] != 'several':
                    problems.append(f'{name}.get_one({key!r}) answers {outcome} although {len(want)} stored objects have that key')
        return problems

    def _possible_keys(self, idx, o):
        """Keys the index function can produce for o over the attribute domains (found by trying the domain values)."""
        out = set()
        saved = {a: getattr(o, a) for a in self.domains}
        try:
            for attr, values in self.domains.items():
                for v in values:
                    setattr(o, attr, _copy(v))
                    try:
                        k = idx._get_key_func(o)
                    except (TypeError, AttributeError):
                        continue
                    for kk in (k if isinstance(k, list) else [k]):
                        if kk is not None and not isinstance(kk, list):
                            out.add(kk)
                setattr(o, attr, saved[attr])
        finally:
            for a, v in saved.items():
                setattr(o, a, v)
        return out

    def key(self):
        names = sorted(self.domains)
        return (tuple(o.attrs(names) for o in self.objs), tuple(sorted(self.members)))


def _copy(v):
    return list(v) if isinstance(v, list) else v


def _bfs_table(acc, arg):
    tname, n_obj, depth = arg
    factory, domains, unique_attrs = _tables()[tname]
    ops = _ops(n_obj, domains)

    def build(history):
        sim = TableSim(factory, domains, unique_attrs, n_obj)
        for op in history:
            sim.apply(op)
            sim.check()     # look-ups happen between the operations too (an answer remembered by the table would show later)
        return sim

    start = build([])
    seen = {start.key()}
    frontier = collections.deque([[]])
    max_depth = 0
    n_trans = 0
    while frontier:
        history = frontier.popleft()
        if len(history) >= depth:
            continue
        for op in ops:
            sim = build(history)
            label, problem = sim.apply(op)
            n_trans += 1
            acc.outcome(f'table:{label}')
            problems = ([problem] if problem else []) + sim.check()
            if problems:
                kind = 'rejected-add-changes-table' if label == 'add-rejected' else 'index-differs-from-scan'
                small = _minimise_table(factory, domains, unique_attrs, n_obj, history + [op], kind)
                acc.violation(f'table/{tname}/{kind}/{_fmt(small[-1:])}', {'table': tname, 'minimal_history': _fmt(small), 'history': [list(map(str, o)) for o in small],
                                                                     'problems': problems[:4]},
                              case={'kind': 'table', 'table': tname, 'n_obj': n_obj, 'history': small})
                continue
            k = sim.key()
            if k not in seen:
                seen.add(k)
                frontier.append(history + [op])
                max_depth = max(max_depth, len(history) + 1)
    acc.transition(n_trans)
    acc.trace(n_trans)
    acc.evals(n_trans)
    for k in seen:
        hk = h64((tname, k))
        acc.state(hk)
        acc.nontrivial(hk)
    acc.note(f'table_{tname}', {'objects': n_obj, 'depth': depth, 'states': len(seen), 'transitions': n_trans,
                                'max_depth_reached': max_depth, 'ops': len(ops)})
    if len(acc.samples) < 3:
        acc.sample({'table': tname, 'example_history': [list(map(str, o)) for o in ops[:4]]})


def _fails(factory, domains, unique_attrs, n_obj, history, kind):
    sim = TableSim(factory, domains, unique_attrs, n_obj)
    for i, op in enumerate(history):
        label, problem = sim.apply(op)
        problems = ([problem] if problem else []) + sim.check()
        if problems:
            k = 'rejected-add-changes-table' if label == 'add-rejected' else 'index-differs-from-scan'
            return i == len(history) - 1 and k == kind
    return False


def _minimise_table(factory, domains, unique_attrs, n_obj, history, kind):
    cur = list(history)
    changed = True
    while changed and len(cur) > 1:
        changed = False
        for i in range(len(cur) - 1):
            cand = cur[:i] + cur[i + 1:]
            if _fails(factory, domains, unique_attrs, n_obj, cand, kind):
                cur = cand
                changed = True
                break
    return cur


def _fmt(history):
    return '>'.join('.'.join(str(x) for x in op) for op in history)


# ------------------------------------------------------------------ (b) MDIB level
MDIB_EVENTS = ['metric(N1,1)', 'alert-cond(on)', 'location(1)', 'location(2)', 'patient-new(A)', 'patient-new(B)',
               'patient-entity-new(C)', 'patient-update-all', 'patient-disassociate', 'patient-reassociate',
               'create-metric', 'create-metric-entity', 'create-channel+metric', 'update-descr(N1)',
               'update-descr+state(N1)', 'update-descr-entity(N1)', 'update-descr(CH)', 'update-cond-signaled',
               'update-alert-source', 'update-context-descr', 'delete(NEW)', 'delete-entity(N1)',
               'delete-subtree(DN_VMD)', 'delete(ch1)', 'parent+child(parent-first)', 'parent+child(child-first)',
               'delete+create-sibling']


def _scan_world(walk):
    problems = []
    for p in canon.mdib_scan(walk.provider.mdib):
        problems.append(('provider', p))
    if walk.cmdib is not None:
        for p in canon.mdib_scan(walk.cmdib):
            problems.append(('consumer', p))
    for name, mgr in walk.provider._subscriptions_managers.items():
        for p in canon.scan_ok(mgr._subscriptions):
            problems.append((f'subscriptions[{name}]', p))
    return problems


def run_hist(h, acc=None):
    walk = mdibwalk.Walk()
    for i, name in enumerate(h):
        rec = walk.step(name)
        if acc is not None:
            acc.transition()
            acc.outcome('mdib-event-' + rec.result)
            k = h64(('mdib', mdibwalk.state_key(rec.after)))
            if acc.state(k):
                acc.nontrivial(k)
        if rec.result == 'raised':
            continue  # failing transactions are C03's subject; the tables are still scanned below
        problems = _scan_world(walk)
        if problems:
            side, text = problems[0]
            sig = side + ':' + text.split('[')[0]
            return (i, 'mdib-index-differs-from-scan', sig, [f'{s}: {t}' for s, t in problems[:4]])
    return None


def _work_mdib(acc, h):
    acc.trace()
    acc.evals()
    res = run_hist(h, acc)
    if res is not None:
        step, kind, sig, detail = res
        small = hist.minimise(lambda c: run_hist(c), h, step, kind, sig)
        acc.violation(f'mdib/{sig}/{">".join(small)}', {'history': small, 'detail': detail},
                      case={'kind': 'mdib', 'history': small})


# ------------------------------------------------------------------ (c) consumer MDIB: reports after lost reports
# A report that arrives after an earlier one was lost may be rejected in the middle (e.g. its create part names a handle
# the consumer still has): whatever was applied before the rejection must be indexed.
LOSSY_HISTORIES = [
    ['create-metric', 'delete(NEW)', 'update-cond-signaled+create-metric'],
    ['create-metric', 'delete(NEW)', 'update-alert-source+create-metric'],
    ['create-metric', 'delete(NEW)', 'create-metric', 'update-cond-signaled'],
    # the consumer still has the signal (its delete report was lost) when it is created again for another condition
    ['create-signal(ac)', 'delete(NEWSIG)', 'create-signal(ac2)'],
    ['update-cond-signaled', 'create-channel+metric', 'delete(ch1)', 'update-alert-source'],
    ['patient-new(A)', 'update-context-descr', 'patient-new(B)', 'delete(PAT)'],
]


def _work_lossy(acc, h):
    from mcx.checks import c06
    import itertools
    cap = c06.Capture(h)
    n = len(cap.captured)
    # every subsequence (messages dropped, order kept) and every subsequence with one message duplicated at the end
    seqs = []
    for k in range(1, n + 1):
        for combo in itertools.combinations(range(n), k):
            seqs.append(list(combo))
            if k < n:
                seqs.append(list(combo) + [combo[0]])
    for seq in seqs:
        acc.trace()
        acc.evals()
        acc.transition(len(seq))
        c06.restore_consumer(cap.m, cap.saved)
        bad = None
        for i in seq:
            cap.deliver(i)
            scan = canon.mdib_scan(cap.m)
            if scan:
                bad = (i, scan)
                break
        acc.outcome('lossy-delivery-' + ('ok' if bad is None else 'inconsistent'))
        if acc.state(h64(('lossy', tuple(h), tuple(seq)))):
            acc.nontrivial(h64(('lossy', tuple(h), tuple(seq))))
        if bad is not None:
            names = [f'{cap.captured[j][3]}@v{cap.captured[j][2]}' for j in seq]
            acc.violation(f'consumer-after-lost-report/{bad[1][0].split("[")[0]}/{">".join(h)}/{",".join(names)}',
                          {'history': h, 'delivered': names, 'problems': bad[1][:3]},
                          case={'kind': 'lossy', 'history': h, 'sequence': seq})
            break
    cap.w.close()


def _work_sync(acc, victims):
    """Consumer-side removal of context states the provider no longer has (ConsumerMdib.xtra.sync_context_states - the
    library's means to follow context states that were deleted without a report): whatever it removes must be gone from every
    index. (On the unchanged tree the method raises "Set changed size during iteration" after its first removal; that is
    tolerated here, only the tables are judged.)"""
    from mcx import alphabet as A
    walk = mdibwalk.Walk()
    for name in ('patient-new(A)', 'patient-new(B)', 'patient-entity-new(C)', 'location(1)', 'location(2)'):
        walk.step(name)
    p, m = walk.provider, walk.cmdib
    acc.trace()
    acc.evals()
    acc.transition(7)
    ent = p.mdib.entities.by_handle(A.PAT if victims != 'locations' else A.LOC)
    handles = sorted(ent.states)
    gone = {'first': handles[:1], 'first-two': handles[:2], 'all': handles, 'locations': handles[:1]}[victims]
    for h in gone:
        ent.states.pop(h)
    with p.mdib.context_state_transaction() as tr:
        tr.write_entity(ent, gone)
    raised = None
    try:
        m.xtra.sync_context_states()
    except RuntimeError as ex:
        raised = repr(ex)[:80]
    acc.outcome(f'sync-context-states:{victims}:raised={raised is not None}')
    acc.state(h64(('sync', victims)))
    scan = canon.mdib_scan(m)
    still = sorted(h for h in gone if m.context_states.handle.get_one(h, allow_none=True) is not None
                   and not any(o.Handle == h for o in m.context_states.objects))
    if scan or still:
        acc.violation(f'consumer-sync-context-states/index-differs-from-scan/{victims}',
                      {'removed_at_provider': gone, 'scan': scan[:3], 'handles_still_found_by_lookup': still, 'sync_raised': raised},
                      case={'kind': 'sync', 'victims': victims})
    else:
        acc.nontrivial(h64(('sync', victims)))
    walk.world.close()


def run(ctx):
    ctx.rule = ('(a) BFS over op histories on 5 real tables (DescriptorsLookup, StatesLookup, MultiStatesLookup, a generic '
                '3-index table, the subscription-table declaration) with 2-3 stub objects whose attribute domains collide; ops: '
                'add (3 variants), remove (3 variants), attribute write + update_object, clear, bulk add, update_objects, '
                'duplicate-key add (must raise and change nothing); state = (attribute values, membership); '
                '(b) provider+consumer MDIB histories over the events that touch indexed attributes; (c) consumer MDIB after every '
                'subsequence (lost reports, one duplicate) of the reports of histories whose later reports are then rejected half-way; '
                'distinct_nontrivial = distinct canonical table states + distinct MDIB snapshots')
    if ctx.quick:
        jobs = [('descriptors', 2, 5), ('states', 3, 6), ('multistates', 2, 6), ('generic', 2, 6), ('subscriptions', 3, 5)]
    else:
        jobs = [('descriptors', 2, 8), ('descriptors', 3, 5), ('states', 3, 9), ('multistates', 3, 6), ('generic', 3, 6),
                ('subscriptions', 3, 8)]
    ctx.pmap(_bfs_table, ctx.rotate(jobs), chunksize=1)
    names = MDIB_EVENTS
    hjobs = hist.sequences(names, 2) if ctx.quick else hist.sequences(names, 2) + hist.sequences(names[10:], 3)
    ctx.note('mdib_histories', len(hjobs))
    ctx.pmap(_work_mdib, ctx.rotate(hjobs))
    ctx.pmap(_work_lossy, ctx.rotate(LOSSY_HISTORIES[:4] if ctx.quick else LOSSY_HISTORIES), chunksize=1)
    ctx.note('lossy_histories', 4 if ctx.quick else len(LOSSY_HISTORIES))
    ctx.pmap(_work_sync, ['first', 'first-two', 'all', 'locations'], chunksize=1)
    from mcx.checks import c11_sched
    c11_sched.run(ctx)
    ctx.assumptions.append('an attribute write on a stored object is always followed by update_object (the documented usage); '
                           'updates that would create a duplicate unique key are outside the alphabet')
    ctx.assumptions.append('MDIB level: tests/mdib_tns.xml, loop-back provider + consumer, subscription tables scanned too')


def replay(ctx, case):
    if case['kind'] == 'table':
        factory, domains, unique_attrs = _tables()[case['table']]
        sim = TableSim(factory, domains, unique_attrs, case['n_obj'])
        out = []
        for op in case['history']:
            label, problem = sim.apply(tuple(op))
            problems = ([problem] if problem else []) + sim.check()
            out.append([label, problems[:3]])
            if problems:
                ctx.violation(f'table/{case["table"]}/{_fmt(case["history"])}', problems[:3])
                break
        return out
    if case['kind'] == 'sync':
        _work_sync(ctx, case['victims'])
        return {'violations': sorted(ctx.violations)[:5]}
    if case['kind'] == 'table-race':
        from mcx.checks import c11_sched
        return c11_sched.replay(ctx, case)
    if case['kind'] == 'lossy':
        from mcx.checks import c06
        cap = c06.Capture(case['history'])
        c06.restore_consumer(cap.m, cap.saved)
        out = []
        for i in case['sequence']:
            cap.deliver(i)
            scan = canon.mdib_scan(cap.m)
            out.append([i, scan[:2]])
            if scan:
                ctx.violation('consumer-after-lost-report/' + scan[0].split('[')[0], scan[:3])
                break
        cap.w.close()
        return out
    res = run_hist(case['history'])
    if res is not None:
        ctx.violation(f'mdib/{res[2]}/{">".join(case["history"])}', res[3])
    return {'result': None if res is None else list(res[:3])}
