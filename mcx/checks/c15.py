"""C15 - UDP retransmission envelope: all outcomes of the two random draws, both parameter sets."""
from __future__ import annotations

import queue
import types

from mcx.choice import enumerate_choices

PROPERTY = 'C15'
TECHNIQUE = ('exhaustive enumeration of every outcome of the random initial-delay and first-gap draws '
             '(choice-point DFS over the real NetworkingThread scheduling code, clock and RNG owned by the harness)')

NOW = 1000.0
EPS = 1e-9


class _FakeRandom:
    def __init__(self):
        self.chooser = None
        self.fixed = None       # callable(kind, a, b, step) -> value: fixed draws (send-loop part)
        self.calls = []

    def randint(self, a, b):
        if self.fixed is not None:
            return min(max(self.fixed('randint', a, b), a), b)
        v = a + self.chooser.choose(b - a + 1, f'randint({a},{b})')
        self.calls.append(('randint', a, b, v))
        return v

    def randrange(self, a, b=None, step=1):
        if b is None:
            a, b = 0, a
        if self.fixed is not None:
            want = self.fixed('randrange', a, b, step)
            return min(range(a, b, step), key=lambda x: abs(x - want))
        n = len(range(a, b, step))
        v = a + step * self.chooser.choose(n, f'randrange({a},{b})')
        self.calls.append(('randrange', a, b, v))
        return v

    def random(self):
        k = self.chooser.choose(5, 'random()')
        v = k / 4 * 0.999999
        self.calls.append(('random', 0, 1, v))
        return v

    def uniform(self, a, b):
        k = self.chooser.choose(5, f'uniform({a},{b})')
        v = a + (b - a) * k / 4
        self.calls.append(('uniform', a, b, v))
        return v


class _ScriptedQueue:
    def __init__(self, nt, items):
        self.nt = nt
        self.items = list(items)

    def get(self, timeout=None):  # noqa: ARG002
        if self.items:
            return self.items.pop(0)
        self.nt._quit_recv_event.set()
        raise queue.Empty

    def put(self, item):
        self.items.append(item)


class _RecordingWsd:
    def __init__(self):
        self.handled = []

    def handle_received_message(self, received_message, addr):
        self.handled.append((received_message.action, received_message.p_msg.header_info_block.MessageID))


def _mk_nt(ntmod, wsd):
    import logging

    class NT(ntmod.NetworkingThread):
        def _create_multicast_in_socket(self, addr, port):  # noqa: ARG002
            return None

        def _create_multi_out_uni_in_out_socket(self, addr, ttl):  # noqa: ARG002
            return None

    return NT('127.0.0.1', wsd, logging.getLogger('verif.c15'), 3702, 1)


def _drain(nt):
    out = []
    while not nt._send_queue.empty():
        out.append(nt._send_queue.get())
    return out


def check_schedule(entries, params, now):
    """Return list of (rule, info) broken by the list of enqueued entries (already in send order)."""
    bad = []
    times = [e.send_time for e in entries]
    if len(entries) != 1 + params.repeat:
        bad.append(('count', f'{len(entries)} transmissions, expected {1 + params.repeat}'))
        return bad
    if sorted(times) != times:
        bad.append(('order', f'send times not ascending {times}'))
    reps = sorted(e.repeat for e in entries)
    if reps != list(range(1, 2 + params.repeat)):
        bad.append(('repeat-index', f'{reps}'))
    d0 = times[0] - now
    if d0 < -EPS or d0 > params.max_initial_delay_ms / 1000.0 + EPS:
        bad.append(('initial-delay', f'first transmission {d0:.4f}s after now, max {params.max_initial_delay_ms}ms'))
    gaps = [b - a for a, b in zip(times, times[1:])]
    upper = params.upper_delay_ms / 1000.0
    if gaps:
        g = gaps[0]
        if g < params.min_delay_ms / 1000.0 - EPS or g > params.max_delay_ms / 1000.0 + EPS:
            bad.append(('first-gap', f'{g:.4f}s outside [{params.min_delay_ms},{params.max_delay_ms}]ms'))
        for i in range(1, len(gaps)):
            expected = min(2 * gaps[i - 1], upper)
            if gaps[i] > upper + EPS:
                bad.append((f'gap{i + 1}-above-upper', f'gap {gaps[i]:.4f}s > upper {upper}s (gaps {gaps})'))
            elif abs(gaps[i] - expected) > 1e-6:
                bad.append((f'gap{i + 1}-not-doubled', f'gap {gaps[i]:.4f}s expected {expected:.4f}s (gaps {gaps})'))
    return bad


def _setup():
    from sdc11073.wsdiscovery import networkingthread as ntmod
    from sdc11073.wsdiscovery import wsdimpl
    fake_random = _FakeRandom()
    fake_time = types.SimpleNamespace(time=lambda: NOW, monotonic=lambda: NOW, sleep=lambda s: None,
                                      perf_counter=lambda: NOW)
    ntmod.random = fake_random
    ntmod.time = fake_time
    return ntmod, wsdimpl, fake_random


def _mk_message(wsdimpl, kind='probe'):
    from sdc11073.xml_types import wsd_types
    from sdc11073.xml_types.addressing_types import HeaderInformationBlock
    payload = wsd_types.ProbeType()
    inf = HeaderInformationBlock(action=payload.action, addr_to=wsdimpl.ADDRESS_ALL)
    return wsdimpl._mk_wsd_soap_message(inf, payload)


def run(ctx):
    ntmod, wsdimpl, frandom = _setup()
    ctx.rule = ('every outcome of randint(initial delay) x randrange(first gap) as requested by the code, for '
                'UNICAST_REPEAT_PARAMS and MULTICAST_REPEAT_PARAMS; a case is one pair of draws; non-trivial = '
                'distinct resulting schedule (tuple of send-time offsets in us)')
    wsd = _RecordingWsd()
    nt = _mk_nt(ntmod, wsd)
    msg = _mk_message(wsdimpl)
    param_sets = ctx.rotate([('unicast', ntmod.UNICAST_REPEAT_PARAMS), ('multicast', ntmod.MULTICAST_REPEAT_PARAMS)])
    for name, params in param_sets:
        def one(chooser, params=params):
            frandom.chooser = chooser
            frandom.calls = []
            nt._send_queue = queue.PriorityQueue(10000)
            nt._known_message_ids.clear()
            nt.add_outbound_message(msg, '239.255.255.250', 3702, params)
            return _drain(nt), list(frandom.calls)

        n = 0
        for choices, (entries, calls) in enumerate_choices(one):
            n += 1
            ctx.transition()
            ctx.trace()
            ctx.evals()
            offs = tuple(round((e.send_time - NOW) * 1e6) for e in entries)
            ctx.state((name, offs))
            ctx.nontrivial((name, offs))
            if n in (1, 2) or (len(ctx.samples) < 6 and n % 40000 == 0):
                ctx.sample({'params': name, 'draws': [c[3] for c in calls], 'send_offsets_s': [o / 1e6 for o in offs]})
            for rule, info in check_schedule(entries, params, NOW):
                ctx.add(f'bad:{name}:{rule}')
                ctx.violation(f'schedule/{name}/{rule}', {'draws': calls, 'info': info,
                                                          'params': repr(params)},
                              case={'kind': 'schedule', 'params': name, 'choices': choices})
            ctx.outcome(f'{name}:draw-calls={len(calls)}')
        ctx.note(f'executions_{name}', n)
    _send_loop(ctx, ntmod, wsdimpl, frandom)
    _loopback(ctx, ntmod, wsdimpl, frandom)
    frandom.fixed = None
    from mcx.checks import c15_sched
    c15_sched.run(ctx)      # (c) add_outbound_message racing with the send thread and the looped-back datagram


def _send_loop(ctx, ntmod, wsdimpl, frandom):
    """The real send loop on a virtual clock: every transmission leaves at its scheduled time (within the raster of the
    loop), whenever stop is requested - before the first transmission, between any two, or never."""
    clock = {'now': NOW, 'stop_at': None, 'enqueue_at': None}
    sent = []
    sent2 = []
    holder = {}

    class _Sock:
        def sendto(self, data, addr):  # noqa: ARG002
            if holder.get('id2') and holder['id2'].encode() in data:
                sent2.append(clock['now'])
            else:
                sent.append(clock['now'])
            if holder.get('after_first_send'):
                hook, holder['after_first_send'] = holder['after_first_send'], None
                hook()

    class _Sel:
        def select(self, timeout=None):  # noqa: ARG002
            return [(types.SimpleNamespace(fileobj=_Sock()), 1)]

    def vsleep(seconds):
        # virtual time passes in steps of at most 5 ms, so that something can happen while the loop sleeps
        remaining = seconds
        while True:
            step = min(remaining, 0.005)
            clock['now'] += step
            remaining -= step
            if clock['enqueue_at'] is not None and clock['now'] >= clock['enqueue_at']:
                clock['enqueue_at'] = None
                nt = holder['nt']
                old_fixed = frandom.fixed
                frandom.fixed = lambda kind, a, b, step=1: a      # second message: no initial delay, smallest first gap
                msg2 = _mk_message(wsdimpl)
                holder['id2'] = msg2.p_msg.header_info_block.MessageID
                nt.add_outbound_message(msg2, '239.255.255.250', 3702, holder['params'])
                frandom.fixed = old_fixed
                holder['schedule2'] = sorted(e.send_time for e in list(nt._send_queue.queue) if e.msg.created_message is msg2)
            if remaining <= 1e-12:
                break
        if clock['stop_at'] is not None and clock['now'] >= clock['stop_at']:
            holder['nt'].schedule_stop()
    old_time = ntmod.time
    ntmod.time = types.SimpleNamespace(time=lambda: clock['now'], monotonic=lambda: clock['now'], sleep=vsleep,
                                       perf_counter=lambda: clock['now'])
    try:
        wsd = _RecordingWsd()
        for name, params in (('unicast', ntmod.UNICAST_REPEAT_PARAMS), ('multicast', ntmod.MULTICAST_REPEAT_PARAMS)):
            init = sorted({0, params.max_initial_delay_ms // 2, params.max_initial_delay_ms})
            gaps = sorted({params.min_delay_ms, (params.min_delay_ms + params.max_delay_ms) // 2, params.max_delay_ms})
            for d0 in init:
                for g0 in gaps:
                    frandom.fixed = lambda kind, a, b, step=1, d0=d0, g0=g0: d0 if kind == 'randint' else g0  # noqa: ARG005
                    probe = _mk_nt(ntmod, wsd)
                    clock['now'] = NOW
                    clock['stop_at'] = None
                    probe.add_outbound_message(_mk_message(wsdimpl), '239.255.255.250', 3702, params)
                    schedule = [e.send_time for e in _drain(probe)]
                    stops = [None, NOW] + [(a + b) / 2 for a, b in zip([NOW] + schedule, schedule)] + [schedule[-1] + 1.0]
                    for stop_at in stops:
                        nt = _mk_nt(ntmod, wsd)
                        holder['nt'] = nt
                        nt._outbound_selector = _Sel()
                        clock['now'] = NOW
                        del sent[:]
                        nt.add_outbound_message(_mk_message(wsdimpl), '239.255.255.250', 3702, params)
                        clock['stop_at'] = schedule[-1] + 5.0 if stop_at is None else stop_at   # the loop has to end some time
                        if stop_at is not None and stop_at <= NOW:
                            nt.schedule_stop()
                        nt._run_send()
                        ctx.transition(len(sent))
                        ctx.trace()
                        ctx.evals()
                        ctx.add('states')
                        key = f'{name}/d0={d0}/g0={g0}/stop={"never" if stop_at is None else round(stop_at - NOW, 3)}'
                        ctx.nontrivial(('send-loop', key, tuple(round((a - NOW) * 1000) for a in sent)))
                        if len(sent) != len(schedule):
                            ctx.violation(f'send-loop/transmissions-lost-or-added/{name}',
                                          {'case': key, 'sent': len(sent), 'scheduled': len(schedule)}, case={'kind': 'send-loop'})
                            continue
                        raster = ntmod.SEND_LOOP_IDLE_SLEEP + ntmod.SEND_LOOP_BUSY_SLEEP + 1e-6
                        early = [(round(a - NOW, 4), round(sch - NOW, 4)) for a, sch in zip(sent, schedule) if a < sch - 1e-9]
                        late = [(round(a - NOW, 4), round(sch - NOW, 4)) for a, sch in zip(sent, schedule) if a > sch + raster]
                        if early:
                            ctx.violation(f'send-loop/sent-before-scheduled-time/{name}/stop-{"requested" if stop_at is not None else "never"}',
                                          {'case': key, 'sent_vs_scheduled_s': early}, case={'kind': 'send-loop'})
                        if late:
                            ctx.violation(f'send-loop/sent-later-than-raster/{name}', {'case': key, 'sent_vs_scheduled_s': late},
                                          case={'kind': 'send-loop'})
                    # a second message is handed to the node while the loop waits for the next copy of the first one: its
                    # copies leave at their own scheduled times
                    for enqueue_at in [NOW + 0.001] + [(a + b) / 2 for a, b in zip(schedule, schedule[1:])][:3]:
                        nt = _mk_nt(ntmod, wsd)
                        holder.update(nt=nt, params=params, id2=None, schedule2=None)
                        nt._outbound_selector = _Sel()
                        clock['now'] = NOW
                        del sent[:]
                        del sent2[:]
                        nt.add_outbound_message(_mk_message(wsdimpl), '239.255.255.250', 3702, params)
                        clock['enqueue_at'] = enqueue_at
                        clock['stop_at'] = schedule[-1] + 10.0
                        nt._run_send()
                        clock['enqueue_at'] = None
                        ctx.transition(len(sent) + len(sent2))
                        ctx.trace()
                        ctx.evals()
                        ctx.add('states')
                        key = f'{name}/d0={d0}/g0={g0}/second-message-at={round(enqueue_at - NOW, 3)}'
                        ctx.nontrivial(('send-loop-2', key, tuple(round((a - NOW) * 1000) for a in sent2)))
                        sch2 = holder.get('schedule2') or []
                        raster = ntmod.SEND_LOOP_IDLE_SLEEP + ntmod.SEND_LOOP_BUSY_SLEEP + 0.005 + 1e-6
                        if len(sent2) != len(sch2) or len(sent) != len(schedule):
                            ctx.violation(f'send-loop/transmissions-lost-or-added/{name}/two-messages',
                                          {'case': key, 'sent': [len(sent), len(sent2)], 'scheduled': [len(schedule), len(sch2)]},
                                          case={'kind': 'send-loop'})
                            continue
                        late2 = [(round(a - NOW, 4), round(b - NOW, 4)) for a, b in zip(sent2, sch2) if a > b + raster]
                        early2 = [(round(a - NOW, 4), round(b - NOW, 4)) for a, b in zip(sent2, sch2) if a < b - 1e-9]
                        if late2 or early2:
                            ctx.violation(f'send-loop/second-message-not-sent-at-its-scheduled-times/{name}',
                                          {'case': key, 'late': late2, 'early': early2}, case={'kind': 'send-loop'})
        # environment fault: the communication log (a DirectoryLogger with log_out) cannot be written any more after the first
        # transmission (folder removed): logging is a side channel, all 1 + repeat copies still have to leave
        import logging
        import shutil
        import tempfile
        from sdc11073 import commlog
        for name, params in (('unicast', ntmod.UNICAST_REPEAT_PARAMS), ('multicast', ntmod.MULTICAST_REPEAT_PARAMS)):
            frandom.fixed = lambda kind, a, b, step=1: a
            folder = tempfile.mkdtemp(prefix='verif_c15_')
            nt = _mk_nt(ntmod, wsd)
            holder.update(nt=nt, params=params, id2=None, schedule2=None)
            nt._outbound_selector = _Sel()
            clock['now'] = NOW
            clock['enqueue_at'] = None
            del sent[:]
            nt.add_outbound_message(_mk_message(wsdimpl), '239.255.255.250', 3702, params)
            clock['stop_at'] = NOW + 20.0
            died = None
            logger = commlog.DirectoryLogger(folder, log_out=True)
            logging.disable(logging.NOTSET)
            old_raise, logging.raiseExceptions = logging.raiseExceptions, False     # no traceback print of the logging module
            try:
                logger.start()
                holder['after_first_send'] = lambda folder=folder: shutil.rmtree(folder, ignore_errors=True)
                nt._run_send()
            except Exception as ex:  # noqa: BLE001
                died = repr(ex)[:200]
            finally:
                holder['after_first_send'] = None
                logging.raiseExceptions = old_raise
                logging.disable(logging.CRITICAL)
                logger.stop()
                shutil.rmtree(folder, ignore_errors=True)
            ctx.transition(len(sent))
            ctx.trace()
            ctx.evals()
            ctx.add('states')
            ctx.nontrivial(('send-loop-log-fault', name, len(sent)))
            ctx.outcome(f'send-loop-with-failing-communication-log:{name}:sent={len(sent)}')
            if died is not None or len(sent) != 1 + params.repeat:
                ctx.violation(f'send-loop/transmissions-lost-when-the-communication-log-fails/{name}',
                              {'sent': len(sent), 'expected': 1 + params.repeat, 'send_loop_ended_with': died},
                              case={'kind': 'send-loop'})
    finally:
        ntmod.time = old_time
        frandom.fixed = None


def _loopback(ctx, ntmod, wsdimpl, frandom):
    """Own messages looped back by multicast are not dispatched; foreign ones are, exactly once."""
    from lxml import etree
    from sdc11073.xml_types import wsd_types
    from sdc11073.wsdiscovery.service import Service
    from mcx.choice import Chooser

    class Corner(Chooser):  # corner draws: first value of every domain
        pass

    senders = ['hello', 'bye', 'probe', 'resolve', 'probe_match', 'resolve_match']
    for kind in ctx.rotate(senders):
        wsd_rec = _RecordingWsd()
        real = wsdimpl.WSDiscovery('127.0.0.1')
        nt = _mk_nt(ntmod, wsd_rec)
        real._networking_thread = nt
        frandom.chooser = Corner([])
        frandom.calls = []
        scopes = wsd_types.ScopesType('sdc.ctxt.loc:/sdc.ctxt.loc.detail/x?fac=a')
        srv = Service([etree.QName('http://a', 'T')], scopes, ['http://1.2.3.4:5/x'], 'urn:uuid:epr1', '7', 1)
        peer = ('10.0.0.9', 4444)
        if kind == 'hello':
            real._send_hello(srv)
        elif kind == 'bye':
            real._send_bye(srv)
        elif kind == 'probe':
            real._send_probe([etree.QName('http://a', 'T')], scopes)
        elif kind == 'resolve':
            real._send_resolve('urn:uuid:other')
        elif kind == 'probe_match':
            real._send_probe_match([srv], 'urn:uuid:rel', peer)
        elif kind == 'resolve_match':
            real._send_resolve_match(srv, 'urn:uuid:rel', peer)
        entries = _drain(nt)
        multicast = kind in ('hello', 'bye', 'probe', 'resolve')
        params = ntmod.MULTICAST_REPEAT_PARAMS if multicast else ntmod.UNICAST_REPEAT_PARAMS
        if len(entries) != 1 + params.repeat:
            ctx.violation(f'sender/{kind}/count', {'entries': len(entries), 'expected': 1 + params.repeat},
                          case={'kind': 'sender', 'sender': kind})
        if not entries:
            continue
        datas = {e.msg.created_message.serialize() for e in entries}
        own = list(datas)[0]
        # a foreign copy: same bytes but another MessageID
        own_id = entries[0].msg.created_message.p_msg.header_info_block.MessageID
        foreign = own.replace(own_id.encode(), b'urn:uuid:00000000-0000-0000-0000-00000000f001')
        nt._quit_recv_event.clear()
        nt._read_queue = _ScriptedQueue(nt, [(peer, own), (peer, foreign), (peer, own), (peer, foreign)])
        nt._run_q_read()
        ctx.transition(4)
        ctx.trace()
        ctx.evals()
        handled_ids = [mid for _, mid in wsd_rec.handled]
        ctx.state(('loopback', kind, tuple(handled_ids)))
        ctx.outcome(f'loopback:{kind}:dispatched={len(handled_ids)}')
        if own_id in handled_ids:
            ctx.violation(f'loopback/{kind}/own-message-dispatched', {'own_id': own_id, 'handled': wsd_rec.handled},
                          case={'kind': 'sender', 'sender': kind})
        if handled_ids.count('urn:uuid:00000000-0000-0000-0000-00000000f001') != 1:
            ctx.violation(f'loopback/{kind}/foreign-dispatch-count',
                          {'handled': wsd_rec.handled, 'expected': 'exactly once'},
                          case={'kind': 'sender', 'sender': kind})
    _loopback_window(ctx, ntmod, wsdimpl, frandom)
    ctx.assumptions.append('clock fixed at t=1000.0 s; sockets replaced by None (no datagram leaves the process)')
    ctx.assumptions.append('float tolerance 1e-6 s on the doubling rule, 1e-9 s on window bounds')


def _loopback_window(ctx, ntmod, wsdimpl, frandom):
    """Own ids stay remembered while fewer than maxlen newer ids arrived - also when the id memory is already full."""
    from mcx.choice import Chooser
    nt0 = _mk_nt(ntmod, _RecordingWsd())
    maxlen = nt0._known_message_ids.maxlen or 200
    template = _mk_message(wsdimpl)
    tid = template.p_msg.header_info_block.MessageID
    tbytes = template.serialize()
    peer = ('10.0.0.9', 4444)

    def foreign(i):
        return tbytes.replace(tid.encode(), f'urn:uuid:00000000-0000-0000-0000-{i:012d}'.encode())

    for before in ctx.rotate([0, 1, maxlen - 1, maxlen, maxlen + 3]):
        for after in (0, 1, 2, 5, maxlen - 1):
            rec = _RecordingWsd()
            nt = _mk_nt(ntmod, rec)
            frandom.chooser = Chooser([])
            frandom.calls = []
            script = [(peer, foreign(i)) for i in range(before)]
            nt._read_queue = _ScriptedQueue(nt, script)
            nt._run_q_read()
            own = _mk_message(wsdimpl)
            own_id = own.p_msg.header_info_block.MessageID
            nt.add_outbound_message(own, '239.255.255.250', 3702, ntmod.MULTICAST_REPEAT_PARAMS)
            own_bytes = own.serialize()
            script = [(peer, foreign(10_000 + i)) for i in range(after)] + [(peer, own_bytes), (peer, own_bytes)]
            nt._quit_recv_event.clear()
            nt._read_queue = _ScriptedQueue(nt, script)
            nt._run_q_read()
            ctx.transition(before + after + 2)
            ctx.trace()
            ctx.evals()
            handled = [mid for _, mid in rec.handled]
            ctx.state(('window', before, after, own_id in handled))
            ctx.outcome('loopback-window:own-dispatched' if own_id in handled else 'loopback-window:own-ignored')
            if own_id in handled:
                ctx.violation(f'loopback-window/own-message-dispatched/known-before={before}/newer={after}',
                              {'remembered_ids': maxlen, 'foreign_ids_before_send': before, 'newer_foreign_ids': after},
                              case={'kind': 'sender', 'sender': 'window'})
            if len(handled) != before + after:
                ctx.violation(f'loopback-window/foreign-dispatch-count/known-before={before}/newer={after}',
                              {'dispatched': len(handled), 'expected': before + after},
                              case={'kind': 'sender', 'sender': 'window'})


def replay(ctx, case):
    if case['kind'] == 'loopback-race':
        from mcx.checks import c15_sched
        return c15_sched.replay(ctx, case)
    ntmod, wsdimpl, frandom = _setup()
    if case['kind'] == 'schedule':
        from mcx.choice import Chooser
        params = {'unicast': ntmod.UNICAST_REPEAT_PARAMS, 'multicast': ntmod.MULTICAST_REPEAT_PARAMS}[case['params']]
        nt = _mk_nt(ntmod, _RecordingWsd())
        frandom.chooser = Chooser(case['choices'])
        frandom.calls = []
        nt.add_outbound_message(_mk_message(wsdimpl), '239.255.255.250', 3702, params)
        entries = _drain(nt)
        bad = check_schedule(entries, params, NOW)
        for rule, info in bad:
            ctx.violation(f'schedule/{case["params"]}/{rule}', info)
        return {'send_offsets': [e.send_time - NOW for e in entries], 'broken': bad}
    _send_loop(ctx, ntmod, wsdimpl, frandom)
    _loopback(ctx, ntmod, wsdimpl, frandom)
    return {'violations': sorted(ctx.violations)}
