"""C09 (c): transaction ids under concurrent requests - schedule exploration part of the C09 check.

Two or three request threads post Set / Activate / SetContextState requests to the real provider (message converter entry
point, as the HTTP server threads do); every interleaving with at most `bound` preemptions at the lock operations of the
request path is executed. Oracle: the transaction ids in the responses are pairwise distinct, each request gets a
response, and the ids that the OperationInvokedReports carry are exactly the ids handed out.
"""
from __future__ import annotations

import re
from decimal import Decimal

from mcx import sched, world
from mcx.runner import h64

REQ = {
    'SetString': ('Set', lambda mt: _set(mt.SetString(), 'DN_SET', 'RequestedStringValue', 'hello')),
    'SetValue': ('Set', lambda mt: _set(mt.SetValue(), 'numeric.ch0.vmd1_sco_0', 'RequestedNumericValue', Decimal(5))),
    'Activate': ('Set', lambda mt: _set(mt.Activate(), 'actop.mds0_sco_0', None, None)),
    'Unknown': ('Set', lambda mt: _set(mt.SetString(), 'no.such.operation', 'RequestedStringValue', 'x')),
}
SCENARIOS = [('SetString', 'SetString'), ('SetString', 'SetValue'), ('Activate', 'SetString'), ('Unknown', 'SetString'),
             ('SetValue', 'Activate')]
SCENARIOS_3 = [('SetString', 'SetValue', 'Activate'), ('SetString', 'SetString', 'SetString')]


def _set(payload, handle, member, value):
    payload.OperationHandleRef = handle
    if member:
        setattr(payload, member, value)
    return payload


def _weight(label):
    return 1


# statement-granularity pass: every statement of the request path (transaction id generation, registry, worker queue)
# is a scheduling point: an id that is read and incremented without the lock is then visible
LINE_ANCHORS = sched.LineAnchors([
    ('provider/providerimpl.py', 'handle_operation_request'),
    ('provider/sco.py', '*'),
    ('provider/operations.py', '*'),
    ('provider/porttypes/setserviceimpl.py', '*'),
    ('provider/porttypes/porttypebase.py', '*'),
    ('provider/porttypes/contextserviceimpl.py', '*'),
], opcode_level=[('provider/providerimpl.py', 'generate_transaction_id')])


def _line_weight(label):
    return 1 if label.startswith('line:') or 'transaction_id' in label else 99


class Run:
    def __init__(self, scenario, prefix, lines=False):
        self.scenario = scenario
        self.s = sched.Scheduler(prefix)
        if lines:
            self.s.line_anchors = LINE_ANCHORS
        world.install()
        w = world.World()
        world.ENV.sched = self.s
        try:
            self.w = w
            self.p = w.mk_provider()
        except BaseException:
            world.ENV.sched = None
            raise
        from sdc11073.xml_types import msg_types
        from sdc11073.xml_types.addressing_types import HeaderInformationBlock
        self.responses = {}
        for i, kind in enumerate(scenario):
            service, mk = REQ[kind]
            payload = mk(msg_types)
            path = f'/{self.p.path_prefix}/{service}'
            inf = HeaderInformationBlock(action=payload.action, addr_to=f'http://10.0.0.1:8000{path}')
            data = self.p.msg_factory.mk_soap_message(inf, payload=payload).serialize()
            self.s.spawn(self._req(i, path, data), f'R{i}:{kind}')

    def _req(self, i, path, data):
        def body():
            status, reason, body_bytes = self.p._msg_converter.do_post(world.mk_headers({'Host': '10.0.0.1:8000'}), path,
                                                                       ('10.0.0.2', 40001 + i), data)
            if isinstance(body_bytes, str):
                body_bytes = body_bytes.encode()
            self.responses[i] = (status, body_bytes)
        return body

    def go(self):
        try:
            self.s.run()
        finally:
            world.ENV.sched = None
        return self

    def judge(self):
        problems = []
        for t in self.s.threads:
            if t.exc is not None:
                problems.append(('request-thread-raised', repr(t.exc)[:200]))
        if isinstance(self.s.error, sched.Deadlock):
            problems.append(('deadlock', str(self.s.error)[:200]))
        ids = []
        for i in range(len(self.scenario)):
            r = self.responses.get(i)
            if r is None:
                problems.append(('no-response', f'request {i}'))
                continue
            m = re.search(rb'TransactionId>\s*(\d+)\s*<', r[1])
            if m is None:
                problems.append(('response-without-transaction-id', f'request {i}: HTTP {r[0]}'))
                continue
            ids.append(int(m.group(1)))
        if len(set(ids)) != len(ids):
            problems.append(('transaction-id-not-unique', {'ids_in_request_order': ids}))
        if ids and (min(ids) < 1 or max(ids) > len(self.scenario)):
            problems.append(('transaction-id-outside-issued-range', {'ids': ids}))
        return problems, tuple(ids)


_WARM = []


def _explore(acc, arg):
    scenario, bound, cap = arg[:3]
    lines = len(arg) > 3
    name = ' || '.join(scenario) + (' [statements]' if lines else '')
    outcomes = set()
    found = {}
    _weight = _line_weight if lines else globals()['_weight']

    if lines and not _WARM:
        # per-instruction trace events of a code object start with its second traced call in the process (CPython 3.12):
        # one throw-away run, so that the default schedule already has all scheduling points
        _WARM.append(1)
        Run(scenario, [], lines).go()

    def one(prefix):
        r = Run(scenario, prefix, lines).go()
        problems, ids = r.judge()
        if lines:
            acc.add('statement-points', r.s.line_points)
        return r.s.trace, (ids, problems, r.s.choices())

    def on_exec(prefix, trace, payload):
        ids, problems, choices = payload
        acc.transition(len(trace))
        acc.trace()
        acc.evals()
        acc.add('scheduling-points', len(trace))
        outcomes.add(ids)
        acc.state(h64(('c09c', name, tuple(choices))))
        for kind, detail in problems:
            if kind not in found:
                found[kind] = (detail, choices, sched.preemptions(trace))

    n, capped = sched.explore(one, bound, max_executions=cap, on_execution=on_exec, weight=_weight)
    for o in outcomes:
        acc.nontrivial(h64(('c09c', name, o)))
    acc.note(f'concurrent-requests[{name}]', {'schedules': n, 'distinct_id_assignments': len(outcomes), 'preemption_bound': bound,
                                              'capped': capped})
    if capped:
        acc.cap(f'concurrent-requests[{name}]', f'stopped after {n} schedules')
    for kind, (detail, choices, pre) in found.items():
        acc.violation(f'concurrent-requests/{kind}/{name}', {'scenario': name, 'detail': detail, 'schedule': choices, 'preemptions': pre},
                      case={'kind': 'sched', 'scenario': list(scenario), 'schedule': choices, 'lines': lines})


def run(ctx):
    bound = 2 if ctx.quick else 3
    jobs = [(s, bound, 1500 if ctx.quick else 30000) for s in SCENARIOS]
    jobs += [(s, 1 if ctx.quick else 2, 1500 if ctx.quick else 30000) for s in SCENARIOS_3]
    jobs += [(s, 1 if ctx.quick else 2, 1500 if ctx.quick else 30000, 'lines') for s in (SCENARIOS[:2] if ctx.quick else SCENARIOS)]
    ctx.note('concurrent_request_scenarios', len(jobs))
    ctx.pmap(_explore, ctx.rotate(jobs), chunksize=1)


def replay(ctx, case):
    r = Run(tuple(case['scenario']), case['schedule'], bool(case.get('lines'))).go()
    problems, ids = r.judge()
    for kind, detail in problems:
        ctx.violation(f'concurrent-requests/{kind}', detail)
    return {'ids': list(ids), 'problems': [p[0] for p in problems]}
