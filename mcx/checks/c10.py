"""C10 - context association invariants hold after any sequence of context changes."""
from __future__ import annotations

from mcx import alphabet as A
from mcx import canon, hist, mdibwalk, world
from mcx.runner import h64

PROPERTY = 'C10'
TECHNIQUE = ('explicit-state exploration of histories of set_location calls, SetContextState invocations (through the real '
             'consumer client, provider SCO worker body and role provider) and context transactions; invariant on the context '
             'table after every commit and on every state carried by EpisodicContextReports')

OP = 'opSetPatCtx'


def _assoc(name):
    ca = A._pm().ContextAssociation
    return {'No': ca.NO_ASSOCIATION, 'Pre': ca.PRE_ASSOCIATION, 'Assoc': ca.ASSOCIATED, 'Dis': ca.DISASSOCIATED}[name]


def _patient_handles(p):
    return sorted(s.Handle for s in p.mdib.context_states.descriptor_handle.get(A.PAT, []))


def set_context(proposals):
    """proposals: list of ('new'|'upd0'|'upd1'|'stale', association)."""
    def ev(walk):
        p = walk.provider
        client = walk.consumer.client('Context')
        handles = _patient_handles(p)
        states = []
        loc_handles = sorted(s.Handle for s in p.mdib.context_states.descriptor_handle.get(A.LOC, []))
        for what, assoc in proposals:
            if what == 'locnew':
                # a state of the location context descriptor proposed through the same operation: the handler works on
                # the descriptor of each proposed state
                st = client.mk_proposed_context_object(A.LOC)
                st.LocationDetail.Bed = 'B' + assoc
                st.Identification.append(A._pm().InstanceIdentifier(root='sdc.ctxt.loc.detail', extension_string='///' + 'B' + assoc))
            elif what in ('locupd0', 'locupdlast'):
                if not loc_handles:
                    raise A.Disabled(what)
                st = client.mk_proposed_context_object(A.LOC, loc_handles[0 if what == 'locupd0' else -1])
                st.LocationDetail.Room = 'R' + assoc
            elif what == 'new':
                st = client.mk_proposed_context_object(A.PAT)
                st.CoreData.Givenname = 'N' + assoc
            elif what in ('upd0', 'upd1'):
                idx = int(what[-1])
                if len(handles) <= idx:
                    raise A.Disabled(what)
                st = client.mk_proposed_context_object(A.PAT, handles[idx])
                st.CoreData.Familyname = 'U' + assoc
                if assoc == 'Keep':
                    # a data-only update: the association of the stored state is proposed unchanged
                    states.append(st)
                    continue
            else:
                st = client.mk_proposed_context_object(A.PAT)
                st.Handle = 'no.such.state.handle'
            st.ContextAssociation = _assoc(assoc)
            states.append(st)
        fut = client.set_context_state(OP, states)
        world.drain_operations(p)
        res = fut.result(timeout=0)
        return res.InvocationInfo.InvocationState.value
    return ev


EVENTS = {}
for what in ('new', 'upd0', 'upd1'):
    for assoc in ('No', 'Pre', 'Assoc', 'Dis'):
        EVENTS[f'set({what}:{assoc})'] = set_context([(what, assoc)])
EVENTS['set(stale:Assoc)'] = set_context([('stale', 'Assoc')])
for what in ('locnew', 'locupd0', 'locupdlast'):
    for assoc in ('Assoc', 'Dis', 'No'):
        EVENTS[f'set({what}:{assoc})'] = set_context([(what, assoc)])
EVENTS['set(locnew:Assoc,new:Assoc)'] = set_context([('locnew', 'Assoc'), ('new', 'Assoc')])
for a, b in (('new:Assoc', 'new:Assoc'), ('new:Assoc', 'upd0:Assoc'), ('new:Assoc', 'new:Pre'), ('upd0:Dis', 'new:Assoc'),
             ('upd0:Assoc', 'upd1:Assoc'), ('upd0:Assoc', 'upd1:Dis'), ('new:Dis', 'new:No'),
             # a request whose first proposal is fine and whose second one is rejected (unknown state handle)
             ('new:Assoc', 'stale:Assoc'), ('upd0:Assoc', 'stale:Dis'), ('new:Assoc', 'stale:Dis'), ('new:Assoc', 'stale:No'),
             # a new associated state together with a data-only update of another stored state
             ('new:Assoc', 'upd0:Keep'), ('new:Assoc', 'upd1:Keep'), ('upd0:Keep', 'new:Assoc')):
    EVENTS[f'set({a},{b})'] = set_context([tuple(a.split(':')), tuple(b.split(':'))])
DIRECT = ['location(1)', 'location(2)', 'patient-new(A)', 'patient-new(B)', 'patient-entity-new(C)', 'patient-disassociate',
          'location-extra(Pre)']


def _ctx_table(p):
    out = {}
    for s in p.mdib.context_states.objects:
        out[s.Handle] = s
    return out


def check(walk, before_states, before_version, rec, result):
    """Invariants after one event. before_states: {handle: (association, descriptor)}."""
    p = walk.provider
    pm = A._pm()
    problems = []
    after_version = p.mdib.mdib_version
    table = _ctx_table(p)
    # uniqueness of handles
    handles = [s.Handle for s in p.mdib.context_states.objects]
    if len(set(handles)) != len(handles):
        problems.append(('context-state-handle-not-unique', 'dup', sorted(h for h in set(handles) if handles.count(h) > 1)))
    descr_handles = {d.Handle for d in p.mdib.descriptions.objects}
    clash = sorted(set(handles) & descr_handles)
    if clash:
        problems.append(('context-state-handle-equals-descriptor-handle', 'clash', clash))
    # at most one associated state per descriptor
    per = {}
    for s in table.values():
        if s.ContextAssociation == pm.ContextAssociation.ASSOCIATED:
            per.setdefault(s.DescriptorHandle, []).append(s.Handle)
    for d, hs in per.items():
        if len(hs) > 1:
            problems.append(('more-than-one-associated-state', d, sorted(hs)))
    committed = after_version != before_version
    if committed and after_version != before_version + 1:
        problems.append(('several-commits-for-one-change', f'{before_version}->{after_version}', None))
    for h, s in table.items():
        was = before_states.get(h)
        was_assoc = was is not None and was[0] == pm.ContextAssociation.ASSOCIATED
        now_assoc = s.ContextAssociation == pm.ContextAssociation.ASSOCIATED
        if was_assoc and not now_assoc:
            if s.ContextAssociation != pm.ContextAssociation.DISASSOCIATED:
                problems.append(('formerly-associated-state-not-marked-disassociated', str(s.ContextAssociation), h))
            elif s.UnbindingMdibVersion != after_version:
                problems.append(('unbinding-version-differs-from-commit-version',
                                 f'UnbindingMdibVersion={s.UnbindingMdibVersion}', {'handle': h, 'commit': after_version}))
            elif s.BindingEndTime is None:
                problems.append(('binding-end-time-missing', 'None', h))
        if now_assoc and not was_assoc:
            if s.BindingMdibVersion != after_version:
                problems.append(('binding-version-differs-from-commit-version', f'BindingMdibVersion={s.BindingMdibVersion}',
                                 {'handle': h, 'commit': after_version}))
            elif s.BindingStartTime is None:
                problems.append(('binding-start-time-missing', 'None', h))
    # the same must hold for what went onto the wire
    from lxml import etree
    from mcx.checks import c04
    consumer_netloc = f'{walk.consumer.verif_owner.ip}:9000'
    for msg in rec.wire:
        if msg.netloc != consumer_netloc:
            continue
        root = c04.parse_body(msg.data)
        if root is None or etree.QName(root).localname != 'EpisodicContextReport':
            continue
        mv = int(root.get('MdibVersion'))
        assoc_per = {}
        for st in root.iter(f'{{{c04.MSG}}}ContextState'):
            h = st.get('Handle')
            ca = st.get('ContextAssociation', 'No')
            was = before_states.get(h)
            was_assoc = was is not None and was[0] == pm.ContextAssociation.ASSOCIATED
            if ca == 'Assoc':
                assoc_per.setdefault(st.get('DescriptorHandle'), []).append(h)
                if not was_assoc and st.get('BindingMdibVersion') != str(mv):
                    problems.append(('report:binding-version-differs-from-report-version',
                                     f'{st.get("BindingMdibVersion")}', {'handle': h, 'report': mv}))
            if was_assoc and ca != 'Assoc':
                if ca != 'Dis' or st.get('UnbindingMdibVersion') != str(mv) or st.get('BindingEndTime') is None:
                    problems.append(('report:disassociated-state-incomplete', f'{ca}/{st.get("UnbindingMdibVersion")}',
                                     {'handle': h, 'report': mv}))
        for d, hs in assoc_per.items():
            others = [h for h, s in table.items() if s.DescriptorHandle == d and h not in hs
                      and s.ContextAssociation == pm.ContextAssociation.ASSOCIATED]
            if len(hs) + len(others) > 1:
                problems.append(('report:more-than-one-associated-state', d, sorted(hs + others)))
    if result == 'Fail' and committed:
        problems.append(('rejected-request-changed-mdib', f'{before_version}->{after_version}', None))
    return problems


def run_hist(h, acc=None):
    walk = mdibwalk.Walk()
    pm = A._pm()
    for i, name in enumerate(h):
        p = walk.provider
        before_states = {s.Handle: (s.ContextAssociation, s.DescriptorHandle) for s in p.mdib.context_states.objects}
        before_version = p.mdib.mdib_version
        before_snap = canon.snapshot(p.mdib)
        result = None

        def fn(provider, name=name):
            nonlocal result
            if name in EVENTS:
                result = EVENTS[name](walk)
            else:
                A.EVENT_BY_NAME[name](provider)
        rec = walk.step(name, fn)
        if rec.result == 'raised' and isinstance(rec.error, A.Disabled):
            rec.result = 'disabled'
        if acc is not None:
            acc.transition()
            acc.outcome(f'event-{rec.result}' + (f':{result}' if result else ''))
            k = h64(canon.freeze({'c': rec.after['context_states'], 'v': rec.after['mdib_version']}))
            if acc.state(k):
                acc.nontrivial(k)
        if rec.result == 'disabled':
            continue
        if rec.result == 'raised':
            return (i, 'event-raised', type(rec.error).__name__, repr(rec.error)[:300])
        problems = check(walk, before_states, before_version, rec, result)
        if result == 'Fail':
            d = canon.diff(before_snap, rec.after)
            if d:
                problems.append(('rejected-request-changed-mdib', d[0][:60], d[:3]))
        if problems:
            kind, sig, detail = problems[0]
            return (i, kind, str(sig)[:60], {'problem': kind, 'detail': detail, 'all': [p[0] for p in problems]})
        ref = canon.referential(p.mdib)
        if ref:
            return (i, 'referential', ref[0][:60], ref[:3])
    return None


def _work(acc, h):
    acc.trace()
    acc.evals()
    res = run_hist(h, acc)
    if res is not None:
        step, kind, sig, detail = res
        small = hist.minimise(lambda c: run_hist(c), h, step, kind, sig)
        acc.violation(f'{kind}/{">".join(small)}', {'history': small, 'signature': sig, 'detail': detail},
                      case={'history': small})
    if len(acc.samples) < 2:
        acc.sample({'history': h})


def run(ctx):
    names = list(EVENTS) + DIRECT
    ctx.rule = ('histories over %d events: SetContextState requests sent by the real consumer client (one or two proposals: new / '
                'update of the first or second existing state / stale handle x NoAssociation, PreAssociation, Associated, '
                'Disassociated, incl. two associated proposals for one descriptor) executed by the real SCO worker body and role '
                'provider, set_location, and library context transactions; depth %d. distinct_nontrivial = distinct (context '
                'table, MdibVersion) states' % (len(names), 2 if ctx.quick else 3))
    jobs = hist.sequences(names, 2)
    if not ctx.quick:
        core = [n for n in names if n in DIRECT[:4] or n.startswith(('set(new', 'set(upd0'))]
        jobs += hist.sequences(core, 3)
    else:
        core = ['set(new:Assoc)', 'set(upd0:Dis)', 'set(upd0:Assoc)', 'set(upd1:Assoc)', 'location(1)', 'patient-new(A)',
                'set(new:Assoc,upd0:Assoc)', 'set(new:Assoc,stale:Dis)', 'set(new:Assoc,upd0:Keep)']
        jobs += hist.sequences(core, 3)
    # depth 4 over the two small context sub-alphabets (order of states inside the table matters there)
    jobs += hist.sequences(['location(1)', 'location(2)', 'location-extra(Pre)', 'location-extra(No)'], 4)
    jobs += hist.sequences(['patient-new(A)', 'patient-new(B)', 'patient-entity-new(C)', 'patient-disassociate'], 4)
    # set_location mixed with SetContextState requests for the location context (who is associated changes behind the back
    # of the other interface)
    loc_mix = ['location(1)', 'location(2)', 'set(locnew:Assoc)', 'set(locupd0:Assoc)', 'set(locupdlast:Dis)']
    jobs += hist.sequences(loc_mix, 3 if ctx.quick else 4)
    ctx.note('histories', len(jobs))
    ctx.pmap(_work, ctx.rotate(jobs))
    from mcx.checks import c10_sched
    c10_sched.run(ctx)     # (b) SetContextState racing with a provider-side context change under the schedule explorer
    ctx.assumptions.append('only the patient context has a SetContextState operation in tests/mdib_tns.xml; location changes go '
                           'through SdcProvider.set_location; queued operations are executed by running the real worker loop body '
                           'synchronously after each request')


def replay(ctx, case):
    if case.get('kind') == 'race':
        from mcx.checks import c10_sched
        return c10_sched.replay(ctx, case)
    res = run_hist(case['history'])
    if res is not None:
        ctx.violation(f'{res[1]}/{">".join(case["history"])}', res[3])
    return {'result': None if res is None else list(res[:3])}
