"""C12 - instances never share mutable state or alter the defaults of later instances."""
from __future__ import annotations

import copy

from mcx import canon, reflect
from mcx.runner import h64

PROPERTY = 'C12'
TECHNIQUE = ('exhaustive enumeration, by reflection over every declared data-type / container class, of construct / parse '
             '(defaulted members absent or present) / copy / nested-write sequences; oracle = canonical value of a fresh '
             'instance unchanged and no nested object shared by identity')

KINDS = ('new', 'parse-absent', 'parse-present', 'copy-of-parse-absent', 'mk_copy', 'parse-absent-again',
         'populated', 'mk_copy-of-populated', 'deepcopy-of-populated', 'parse-of-populated', 'populated-again',
         'parse-of-populated-again', 'mk_copy-of-new', 'deepcopy-of-new', 'mk_copy-of-parse-absent')


def obtain(cls, kind, proto, extra=None):
    extra = extra or {}
    if kind == 'new':
        return reflect.new(cls)
    if kind in ('parse-absent', 'parse-absent-again'):
        return reflect.from_node(cls, reflect.empty_node(), proto)
    if kind == 'parse-present':
        return reflect.from_node(cls, reflect.to_node(proto, lenient=True), proto)
    if kind == 'copy-of-parse-absent':
        src = reflect.from_node(cls, reflect.empty_node(), proto)
        if reflect.is_state(cls):
            dc = src.descriptor_container
            src.descriptor_container = None
            c = copy.deepcopy(src)
            c.descriptor_container = dc
            src.descriptor_container = dc
            return c
        return copy.deepcopy(src)
    if kind == 'mk_copy':
        src = reflect.from_node(cls, reflect.empty_node(), proto)
        if hasattr(src, 'mk_copy'):
            return src.mk_copy()
        return None
    if kind in ('populated', 'populated-again'):
        inst = reflect.new(cls)
        reflect.populate(inst, depth=2)
        return inst
    if kind in ('mk_copy-of-new', 'mk_copy-of-parse-absent'):
        # the source is kept: empty lists / empty extension values must not be shared either
        src = extra.get('new' if kind.endswith('new') else 'parse-absent')
        return src.mk_copy() if src is not None and hasattr(src, 'mk_copy') else None
    if kind == 'deepcopy-of-new':
        src = extra.get('new')
        if src is None:
            return None
        if reflect.is_state(cls):
            dc = src.descriptor_container
            src.descriptor_container = None
            c = copy.deepcopy(src)
            c.descriptor_container = dc
            src.descriptor_container = dc
            return c
        return copy.deepcopy(src)
    if kind == 'mk_copy-of-populated':
        src = extra.get('populated')
        return src.mk_copy() if src is not None and hasattr(src, 'mk_copy') else None
    if kind == 'deepcopy-of-populated':
        src = extra.get('populated')
        if src is None:
            return None
        if reflect.is_state(cls):
            dc = src.descriptor_container
            src.descriptor_container = None
            c = copy.deepcopy(src)
            c.descriptor_container = dc
            src.descriptor_container = dc
            return c
        return copy.deepcopy(src)
    if kind in ('parse-of-populated', 'parse-of-populated-again'):      # the same XML text parsed twice: nothing may be shared
        src = extra.get('populated')
        return reflect.from_node(cls, reflect.to_node(src, lenient=True), proto) if src is not None else None
    raise ValueError(kind)


def _canon(o):
    return canon.canon_obj(o)


def check_class(acc, item):
    qname, cls = item
    proto = reflect.new(cls)
    if proto is None:
        acc.outcome('class-not-constructible')
        return
    try:
        baseline = _canon(reflect.new(cls))
    except Exception as ex:  # noqa: BLE001
        acc.outcome('class-not-canonisable')
        acc.note(f'skipped_{qname}', repr(ex)[:100])
        return
    acc.outcome('class-checked')
    defaults = reflect.class_defaults(cls)
    instances = {}
    for kind in KINDS:
        try:
            inst = obtain(cls, kind, proto, instances)
        except Exception as ex:  # noqa: BLE001
            acc.outcome(f'obtain-failed:{kind}')
            acc.note(f'obtain_failed_{qname}_{kind}', repr(ex)[:120])
            continue
        if inst is not None:
            instances[kind] = inst
    acc.add('states', len(instances))
    # ---- identity: nothing is shared between independently obtained instances, nothing is a class default
    owner = {}
    for kind, inst in instances.items():
        for path, o in reflect.nested_mutables(inst):
            acc.transition()
            pth = '.'.join(map(str, path))
            if id(o) in defaults:
                acc.violation(f'class-default-handed-out/{qname}/{kind}/{pth}',
                              {'class': qname, 'obtained_by': kind, 'path': pth,
                               'default_of': '.'.join(map(str, defaults[id(o)]))},
                              case={'cls': qname, 'kind': kind, 'path': list(path)})
            elif id(o) in owner and owner[id(o)][0] != kind:
                acc.violation(f'nested-object-shared/{qname}/{owner[id(o)][0]}+{kind}/{pth}',
                              {'class': qname, 'instances': [owner[id(o)][0], kind], 'path': pth},
                              case={'cls': qname, 'kind': kind, 'path': list(path)})
            else:
                owner[id(o)] = (kind, path)
    # ---- the instances' own storage (everything in __dict__, not only the declared members): no mutable container is the
    #      same object in two instances; writing the plain attribute `node` of one leaves the others alone
    kinds = list(instances)
    for i, ka in enumerate(kinds):
        for kb in kinds[i + 1:]:
            a, b = instances[ka], instances[kb]
            for attr, va in list(vars(a).items()):
                vb = vars(b).get(attr)
                acc.transition()
                if va is vb and isinstance(va, (dict, list, set, bytearray)):
                    acc.violation(f'instance-storage-shared/{qname}/{ka}+{kb}/{attr}',
                                  {'class': qname, 'instances': [ka, kb], 'attribute': attr, 'type': type(va).__name__},
                                  case={'cls': qname, 'kind': kb, 'path': [attr]})
    if hasattr(proto, 'node'):
        for ka in kinds:
            marker = object()
            before = {k: getattr(v, 'node', None) for k, v in instances.items() if k != ka}
            old_node = getattr(instances[ka], 'node', None)
            try:
                instances[ka].node = marker
            except Exception:  # noqa: BLE001
                continue
            for kb, node_before in before.items():
                acc.evals()
                if getattr(instances[kb], 'node', None) is not node_before:
                    acc.violation(f'other-instance-changed/{qname}/{ka}->{kb}/node',
                                  {'class': qname, 'written_on': ka, 'changed': kb, 'attribute': 'node'},
                                  case={'cls': qname, 'kind': ka, 'path': ['node']})
            instances[ka].node = old_node
    # ---- writes: a nested write on one instance changes neither a later fresh instance nor any other instance
    n_writes = 0
    for kind in list(instances):
        inst = instances[kind]
        others = {k: _canon(v) for k, v in instances.items() if k != kind}
        for path in reflect.scalar_paths(inst, depth=3):
            if len(path) < 2 and not isinstance(reflect.resolve(inst, path), list):
                continue
            try:
                wrote = reflect.write_at(inst, path)
            except Exception:  # noqa: BLE001
                wrote = False
            if not wrote:
                continue
            n_writes += 1
            acc.transition()
            acc.evals()
            acc.trace()
            acc.nontrivial(h64((qname, kind, path)))
            pth = '.'.join(map(str, path))
            fresh_obj = reflect.new(cls)
            if fresh_obj is None:
                acc.violation(f'fresh-instance-changed/{qname}/{kind}/{pth}',
                              {'class': qname, 'written_on': kind, 'path': pth, 'diff': 'a fresh instance cannot be constructed any more'},
                              case={'cls': qname, 'kind': kind, 'path': list(path)})
                return
            fresh = _canon(fresh_obj)
            if fresh != baseline:
                acc.violation(f'fresh-instance-changed/{qname}/{kind}/{pth}',
                              {'class': qname, 'written_on': kind, 'path': pth,
                               'diff': canon._item_diff(baseline, fresh)},
                              case={'cls': qname, 'kind': kind, 'path': list(path)})
                return  # the class-level default is dirty now: stop exploring this class in this process
            for k, before in others.items():
                now = _canon(instances[k])
                if now != before:
                    acc.violation(f'other-instance-changed/{qname}/{kind}->{k}/{pth}',
                                  {'class': qname, 'written_on': kind, 'changed': k, 'path': pth,
                                   'diff': canon._item_diff(before, now)},
                                  case={'cls': qname, 'kind': kind, 'path': list(path)})
                    others[k] = now
            # a freshly *parsed* instance must not see the write either
            try:
                parsed = _canon(reflect.from_node(cls, reflect.empty_node(), proto))
            except Exception:  # noqa: BLE001
                parsed = None
            base_parsed = acc.notes.get('_bp_' + qname)
            if base_parsed is None:
                acc.notes['_bp_' + qname] = repr(parsed)
            elif parsed is not None and repr(parsed) != base_parsed and kind != 'parse-absent-again':
                acc.violation(f'later-parsed-instance-changed/{qname}/{kind}/{pth}',
                              {'class': qname, 'written_on': kind, 'path': pth},
                              case={'cls': qname, 'kind': kind, 'path': list(path)})
                return
    # ---- assigning None to a member and then writing through the value read back must stay private as well
    for kind in ('new', 'populated-again'):
        inst = instances.get(kind)
        if inst is None:
            continue
        for name, _prop in inst.sorted_container_properties():
            try:
                setattr(inst, name, None)
            except Exception:  # noqa: BLE001  the API may reject None
                continue
            try:
                v = getattr(inst, name)
            except Exception:  # noqa: BLE001
                continue
            if not (reflect.is_struct(v) or isinstance(v, list)):
                continue
            acc.transition()
            if id(v) in defaults:
                acc.violation(f'class-default-handed-out/{qname}/after-assigning-None/{name}',
                              {'class': qname, 'path': name}, case={'cls': qname, 'kind': kind, 'path': [name]})
                continue
            wrote = False
            if isinstance(v, list):
                v.append('SENTINEL')
                wrote = True
            else:
                for p2 in reflect.scalar_paths(v, depth=2):
                    try:
                        if reflect.write_at(v, p2):
                            wrote = True
                            break
                    except Exception:  # noqa: BLE001
                        continue
            if wrote and _canon(reflect.new(cls)) != baseline:
                acc.violation(f'fresh-instance-changed/{qname}/after-assigning-None/{name}',
                              {'class': qname, 'path': name}, case={'cls': qname, 'kind': kind, 'path': [name]})
                return
    acc.notes.pop('_bp_' + qname, None)
    acc.add('nested-writes', n_writes)
    if len(acc.samples) < 3 and n_writes:
        acc.sample({'class': qname, 'instances': list(instances), 'nested_writes': n_writes})


def run(ctx):
    classes = reflect.all_classes()
    ctx.rule = ('for each of the %d classes with declared properties: instances obtained by construction, parsing an element with '
                'all optional/defaulted members absent, parsing a fully written default instance, deepcopy, mk_copy and a second '
                'parse; identity of every nested mutable object (depth 3) across instances and against the class-level defaults; '
                'then every nested attribute path (depth 3: scalars, absent scalars, lists incl. empty ones) of every instance is '
                'written and a fresh instance, a freshly parsed instance and all other instances are compared with their value '
                'before. distinct_nontrivial = distinct (class, instance kind, path) writes' % len(classes))
    ctx.note('classes', len(classes))
    ctx.pmap(check_class, ctx.rotate(classes), chunksize=4)
    for k in [k for k in ctx.notes if k.startswith('_bp_')]:
        ctx.notes.pop(k)
    ctx.assumptions.append('classes are explored in forked worker processes (4 classes per task), so a class whose default was '
                           'dirtied by a detected violation cannot contaminate the others')


def replay(ctx, case):
    classes = dict(reflect.all_classes())
    cls = classes[case['cls']]
    check_class(ctx, (case['cls'], cls))
    return {'violations': sorted(ctx.violations)[:10]}
