"""C01 - consumer MDIB is an exact mirror of the provider MDIB after every prefix of every history."""
from __future__ import annotations

from mcx import alphabet as A
from mcx import canon, hist, mdibwalk
from mcx.runner import h64

PROPERTY = 'C01'
TECHNIQUE = ('explicit-state exploration of all provider transaction histories up to a depth bound on the real '
             'provider+consumer stack over an in-memory loop-back transport; invariant = canonical snapshot equality '
             'after every prefix')

PRE_STATES = [
    ['create-metric', 'patient-new(A)'],
    ['delete-entity(N1)', 'location(1)'],
    ['patient-new(A)', 'patient-new(B)', 'update-descr(N1)'],
    ['create-channel+metric', 'alert-cond(on)', 'delete(ch1)'],
    ['patient-new(A)', 'patient-new(B)', 'patient-entity-new(C)'],
]


def _named_handles(fired):
    named = set()
    in_reports = set()
    per_observable = {}
    for name, value in fired:
        if value is None:
            continue
        if name == 'description_modifications':
            for part in value.ReportPart:
                for d in part.Descriptor:
                    in_reports.add(d.Handle)
                for s in part.State:
                    in_reports.add(s.Handle if getattr(s, 'is_context_state', False) else s.DescriptorHandle)
            continue
        if name == 'deleted_states_by_handle':
            for states in value.values():
                for s in states:
                    in_reports.add(s.Handle if getattr(s, 'is_context_state', False) else s.DescriptorHandle)
            continue
        keys = set(value.keys())
        named |= keys
        per_observable.setdefault(name, set()).update(keys)
    return named, in_reports, per_observable


def _descriptor_of(snap, state_handle):
    for key, obj in canon.content(snap).items():
        if key == ('c', state_handle):
            try:
                return dict(obj[1]).get('DescriptorHandle')
            except Exception:  # noqa: BLE001
                return None
    return None


def check_step(rec):
    """Return None or (kind, signature, detail)."""
    if rec.result == 'raised':
        return ('provider-raised', type(rec.error).__name__, repr(rec.error)[:300])
    sp = {k: v for k, v in rec.after.items() if k != 'version_lookup'}
    d = canon.diff(sp, rec.consumer_after)
    if d:
        sig = d[0].split(' differs')[0].split(':')[0] + ':' + (d[0].split(':')[1].strip() if ':' in d[0] else '')
        return ('mirror', sig[:120], d[:4])
    created, updated, deleted = mdibwalk.changed_keys(rec.before, rec.after)
    changed = {k[1] for k in created | updated | deleted}
    named, in_reports, per_obs = _named_handles(rec.fired)
    false_names = sorted(h for h in named if h not in changed)
    if false_names:
        return ('observable-names-unchanged-entity', ','.join(sorted(per_obs)), {'named_but_unchanged': false_names,
                                                                                'changed': sorted(changed),
                                                                                'observables': {k: sorted(v) for k, v in per_obs.items()}})
    # a context state that disappears because its (multi-state) descriptor was updated without it is named through that
    # descriptor: the entity that the report changed is the context descriptor with its states
    implicit = {k[1] for k in deleted if k[0] == 'c' and _descriptor_of(rec.before, k[1]) in (named | in_reports)}
    missing = sorted(h for h in changed if h not in named and h not in in_reports and h not in implicit)
    if missing:
        return ('changed-entity-not-named', ','.join(sorted(per_obs)) or 'none', {'changed_but_not_named': missing,
                                                                                  'observables': {k: sorted(v) for k, v in per_obs.items()}})
    return None


def run_hist(h, acc=None):
    """Replay a history; return None or (step, kind, signature, detail)."""
    kwargs = {}
    if h and h[0].startswith('cfg:instance_id='):
        v = h[0].split('=')[1]
        kwargs['instance_id'] = None if v == 'None' else int(v)
    walk = mdibwalk.Walk(provider_kwargs=kwargs or None)
    for i, name in enumerate(h):
        if name.startswith('cfg:'):
            continue
        rec = walk.step(name)
        if acc is not None:
            acc.transition()
            if rec.result == 'disabled':
                acc.outcome('event-disabled')
            else:
                acc.outcome('event-applied')
                created, updated, deleted = mdibwalk.changed_keys(rec.before, rec.after)
                if created:
                    acc.outcome('steps-creating')
                if deleted:
                    acc.outcome('steps-deleting')
            if acc.state(h64(mdibwalk.state_key(rec.after))):
                acc.nontrivial(h64(mdibwalk.state_key(rec.after)))
        bad = check_step(rec)
        if bad is not None:
            return (i,) + bad
    return None


def _work(acc, h):
    acc.trace()
    acc.evals()
    res = run_hist(h, acc)
    if res is not None:
        step, kind, sig, detail = res
        small = hist.minimise(lambda c: run_hist(c), h, step, kind, sig)
        acc.add(f'bad:{kind}')
        acc.violation(f'{kind}/{">".join(small)}', {'history': small, 'signature': sig, 'detail': detail,
                                                    'found_in': h[:step + 1]}, case={'history': small})
    if len(acc.samples) < 2:
        acc.sample({'history': h, 'result': 'violation' if res else 'mirror exact after every prefix'})


def run(ctx):
    names = [n for n, _ in A.EVENTS]
    ctx.rule = ('histories = all sequences over the event alphabet (see mcx/alphabet.py, %d events: every transaction kind, '
                'both interfaces, descriptor create/update/delete/re-create, contexts, location) of the stated depth, plus '
                'every single event / pair from %d non-initial pre-states; distinct_nontrivial = distinct canonical provider '
                'MDIB snapshots reached' % (len(names), len(PRE_STATES)))
    if ctx.quick:
        jobs = hist.sequences(names, 2) + hist.sequences_from(PRE_STATES, names, 1)
        ctx.note('bounds', {'depth_full_alphabet': 2, 'pre_states': len(PRE_STATES), 'depth_from_pre_states': 1,
                            'alphabet': len(names)})
    else:
        core = A.CORE
        jobs = (hist.sequences(names, 2) + hist.sequences(core, 3) + hist.sequences_from(PRE_STATES, names, 1)
                + hist.sequences_from(PRE_STATES, core, 2) + hist.sequences(A.DESCR_CTX[:12], 3))
        ctx.note('bounds', {'depth_full_alphabet': 2, 'depth_core_alphabet': 3, 'core': len(core),
                            'pre_states': len(PRE_STATES), 'depth_from_pre_states_core': 2, 'alphabet': len(names)})
    # the provider's InstanceId: absent, 0 (falsy but a value) and a large one
    for iid in ('None', '0', str(2 ** 40)):
        jobs += [[f'cfg:instance_id={iid}', e] for e in A.CORE]
        jobs += [[f'cfg:instance_id={iid}', 'metric(N1,1)', 'create-metric', 'metric(N1,2)']]
    jobs = ctx.rotate(jobs)
    ctx.note('histories', len(jobs))
    ctx.pmap(_work, jobs)
    ctx.assumptions.append('one provider, one consumer, all actions subscribed, synchronous in-order delivery over the '
                           'loop-back transport (real serialisation, schema validation and parsing on both sides)')
    ctx.assumptions.append('MDIB tests/mdib_tns.xml; values from the alphabet only')


def replay(ctx, case):
    res = run_hist(case['history'])
    if res is not None:
        step, kind, sig, detail = res
        ctx.violation(f'{kind}/{">".join(case["history"])}', {'step': step, 'signature': sig, 'detail': detail})
    return {'result': None if res is None else [res[0], res[1], res[2]]}
