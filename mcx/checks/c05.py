"""C05 - BICEPS / WS-* data types round-trip losslessly through schema-valid XML.

Engine I. Reflection finds every class with declared properties (participant model, message model, WS-Addressing /
Eventing / Discovery / DPWS / MEX, SOAP fault, state and descriptor containers). For each class the harness builds
 * the base instance (mandatory members only),
 * every single deviation from it: each declared member set to each value of its domain (present/absent, list
   lengths 0/1/2, every enum member, every xsi:type substitution of a nested value, XML-special and non-ASCII strings,
   boundary numbers), nested value classes populated recursively,
 * the fully populated instance in two variants (all optional members present at once), and (thorough) every pair of
   deviations,
and checks on every instance
 (1) write -> XML validates against the bundled XSD (harness-built validator; a wrapper schema declares one element per
     named complex type; message and WS-* classes that are global elements are validated as such),
 (2) parse(write(x)) is canonically equal to x,
 (3) write(x) twice gives the same XML, write(parse(write(x))) gives the same XML, and writing does not change the XML
     that x was parsed from,
 (4) parsing the XML of the base instance twice yields objects that share no mutable member with each other nor with a
     class-level default; an explicitly written implied value parses equal to the absent one.
"""
from __future__ import annotations

import copy
import itertools
from decimal import Decimal

from lxml import etree

from mcx import canon, reflect, schema, world, xsdmodel
from mcx.runner import h64

PROPERTY = 'C05'
TECHNIQUE = ('bounded-exhaustive enumeration of instances of every declared data-type / container class (base, every single '
             'member deviation over a per-type value domain incl. every enum member and xsi:type substitution, fully populated '
             'variants, thorough: all pairs) checked against the bundled XSD (independent validator), canonical round-trip '
             'equality, write idempotence and object-identity rules')

XS = '{http://www.w3.org/2001/XMLSchema}'
WRAP_NS = 'urn:verif:wrap'
EXT_NS = 'urn:verif:ext'
_XSD = None


def xsd_index():
    """({namespace: {complex type names}}, {namespace: {global element names}}, {(ns, type) : abstract?})"""
    global _XSD
    if _XSD is None:
        types, elements, abstract = {}, {}, set()
        for f in sorted(schema.XSD_DIR.glob('*.xsd')):
            root = etree.parse(str(f)).getroot()
            ns = root.get('targetNamespace')
            for ct in root.findall(XS + 'complexType'):
                types.setdefault(ns, set()).add(ct.get('name'))
                if ct.get('abstract') == 'true':
                    abstract.add((ns, ct.get('name')))
            for el in root.findall(XS + 'element'):
                elements.setdefault(ns, set()).add(el.get('name'))
        _XSD = (types, elements, abstract)
    return _XSD


_WRAPPER = None


def wrapper_validator():
    """Schema importing every bundled namespace and declaring element W<i>_<Type> for every named complex type."""
    global _WRAPPER
    if _WRAPPER is None:
        types, _, _ = xsd_index()
        parser = etree.XMLParser(resolve_entities=True)
        parser.resolvers.add(schema._Resolver())
        nss = sorted(types)
        parts = ['<?xml version="1.0" encoding="UTF-8"?>',
                 f'<xsd:schema xmlns:xsd="http://www.w3.org/2001/XMLSchema" targetNamespace="{WRAP_NS}" elementFormDefault="qualified"'
                 + ''.join(f' xmlns:n{i}="{ns}"' for i, ns in enumerate(nss)) + '>']
        seen = set()
        for f in sorted(schema.XSD_DIR.glob('*.xsd')):
            ns = schema._target_ns(f)
            if ns is None or ns in seen or ns == 'http://www.w3.org/XML/1998/namespace':
                continue
            seen.add(ns)
            parts.append(f'<xsd:import namespace="{ns}" schemaLocation="{f.name}"/>')
        names = {}
        for i, ns in enumerate(nss):
            if ns not in seen:
                continue
            for t in sorted(types[ns]):
                names[(ns, t)] = f'W{i}_{t}'
                parts.append(f'<xsd:element name="W{i}_{t}" type="n{i}:{t}"/>')
        parts.append('</xsd:schema>')
        tree = etree.fromstring('\n'.join(parts).encode(), parser=parser, base_url=str(schema.XSD_DIR) + '/')
        _WRAPPER = (etree.XMLSchema(etree=tree), names)
    return _WRAPPER


ROUND_TRIP_ONLY = {
    'GetMdibResponse': 'the Mdib member is a raw element tree that the provider assembles itself (attributes of msg:Mdib are '
                       'not part of the class)',
}


def xsd_target(cls):
    """How instances of cls are validated: ('type', ns, name) | ('element', ns, name) | None."""
    if cls.__name__ in ROUND_TRIP_ONLY:
        return None
    types, elements, abstract = xsd_index()
    nt = getattr(cls, 'NODETYPE', None)
    cn = cls.__name__
    if nt is not None:
        q = etree.QName(nt)
        if q.localname in types.get(q.namespace, ()):
            return ('type', q.namespace, q.localname)
    mod_ns = MODULE_NS.get(cls.__module__.split('.')[-1], [])
    for ns in mod_ns:
        if cn in elements.get(ns, ()):
            return ('element', ns, cn)
    for ns in mod_ns:
        for cand in (cn, cn + 'Type'):
            if cand in types.get(ns, ()):
                return ('type', ns, cand)
    return None


PM = 'http://standards.ieee.org/downloads/11073/11073-10207-2017/participant'
MSG = 'http://standards.ieee.org/downloads/11073/11073-10207-2017/message'
MODULE_NS = {
    'pm_types': [PM], 'statecontainers': [PM], 'descriptorcontainers': [PM], 'msg_types': [MSG],
    'eventing_types': ['http://schemas.xmlsoap.org/ws/2004/08/eventing'],
    'addressing_types': ['http://www.w3.org/2005/08/addressing'],
    'wsd_types': ['http://docs.oasis-open.org/ws-dd/ns/discovery/2009/01'],
    'dpws_types': ['http://docs.oasis-open.org/ws-dd/ns/dpws/2009/01'],
    'mex_types': ['http://schemas.xmlsoap.org/ws/2004/09/mex'],
    'soapenvelope': ['http://www.w3.org/2003/05/soap-envelope'],
}


# ---------------------------------------------------------------------------------------------- value domains
TIMEZONES = ['CST6CDT,M3.2.0/2:00:00,M11.1.0/2:00:00', 'UTC0']


def ext_elements(variant=0):
    a = etree.Element(etree.QName(EXT_NS, 'Foo'), nsmap={'vx': EXT_NS})
    a.text = 'ext text'
    a.set('attr', 'v')
    etree.SubElement(a, etree.QName(EXT_NS, 'Child')).text = 'c'
    b = etree.Element(etree.QName(EXT_NS, 'Bar'), nsmap={'vx': EXT_NS})
    return [a] if variant == 0 else [a, b]


def subclasses_with_type(vc, x=None):
    """Classes that may stand in for vc through xsi:type: python subclasses whose XSD type derives from the declared type
    of the member (x), if that is known."""
    out = []
    stack = list(vc.__subclasses__())
    declared = x.type if isinstance(x, xsdmodel.Child) and x.type is not None else None
    while stack:
        c = stack.pop()
        stack.extend(c.__subclasses__())
        nt = getattr(c, 'NODETYPE', None)
        if nt is None or c in out or c.__name__.startswith('Abstract'):
            continue
        if declared is not None:
            q = etree.QName(nt)
            if not xsdmodel.derives_from((q.namespace, q.localname), declared):
                continue
        out.append(c)
    return sorted(out, key=lambda c: c.__name__)


def class_model(cls):
    """The XSD model of the type (or global element) that instances of cls are validated against, or None."""
    t = xsd_target(cls)
    if t is None:
        return None
    return xsdmodel.model_for_type(t[1], t[2]) if t[0] == 'type' else xsdmodel.model_for_element(t[1], t[2])


def member_xsd(model, prop):
    """(Child | Attr | None) for a declared member within the XSD model of its owner."""
    if model is None:
        return None
    an = getattr(prop, '_attribute_name', None)
    if an is not None:
        return model.attrs.get(an) or model.attrs.get(etree.QName(an).text if isinstance(an, etree.QName) else an)
    sn = getattr(prop, '_sub_element_name', None)
    if sn is not None:
        return model.child(etree.QName(sn))
    return None


def xsd_required(x):
    return bool(x is not None and x.required)


def value_model(value, x):
    """XSD model for a nested value: its own xsi:type if it has one, else the declared type of the member."""
    nt = getattr(type(value), 'NODETYPE', None)
    if nt is not None:
        q = etree.QName(nt)
        m = xsdmodel.model_for_type(q.namespace, q.localname)
        if m is not None:
            return m
    if isinstance(x, xsdmodel.Child):
        m = xsdmodel.child_model(x)
        if m is not None:
            return m
    return class_model(type(value))


def domain(owner_cls, name, prop, depth, x=None):
    """Values for one declared member, typical first, chosen inside the value space of the member's XSD type (x is the
    member's XSD declaration if known)."""
    from sdc11073.xml_types import xml_structure as xs
    cname = type(prop).__name__
    info = None
    if isinstance(x, xsdmodel.Attr):
        info = xsdmodel.simple_info(x.type, x.inline_simple)
    elif isinstance(x, xsdmodel.Child) and x.type is not None:
        info = xsdmodel.simple_info(x.type)
    if cname == 'ExtensionNodeProperty':
        return [xs.ExtensionLocalValue(ext_elements(0)), xs.ExtensionLocalValue(ext_elements(1))]
    if cname == 'TimeZoneAttributeProperty':
        return list(TIMEZONES)
    if cname in ('AnyURIAttributeProperty', 'AnyUriTextElement'):
        return ['urn:oid:1.2.3', 'http://example.com/a?b=c&d=e', 'x']
    if cname == 'CodeIdentifierAttributeProperty':
        return ['12345', 'a b']
    if cname == 'SymbolicCodeNameAttributeProperty':
        return ['MDC_DEV', 'X']
    if cname == 'ExtensionAttributeProperty':
        return ['ext 1', 'a<&"\' ä€']
    if cname == 'LocalizedTextRefAttributeProperty':
        return ['ref.1']
    if cname in ('HandleAttributeProperty', 'HandleRefAttributeProperty'):
        return ['h.1', 'ä€_handle']
    if isinstance(prop, (xs.StringAttributeProperty, xs.NodeStringProperty)):
        builtin = info['builtin'] if info else None
        if name in ('Lang', 'lang') or builtin == 'language':
            return ['en', 'de-DE', 'x-klingon']
        if builtin == 'dateTime':
            return ['2024-01-02T03:04:05Z', '2024-01-02T03:04:05.123+01:00']
        if builtin == 'date':
            return ['2024-01-02']
        if builtin in ('gYear',):
            return ['2024']
        if builtin == 'string' and info['minLength'] == 0 and not info['enum'] and not info['pattern'] and not info['list'] \
                and cname in ('NodeStringProperty', 'StringAttributeProperty'):
            # plain xsd:string: the empty string is a value of its own (present but empty is not absent)
            return ['text', 'a<&>" ä€', '', ' two  words ']
    if info is not None and info['enum'] and isinstance(prop, (xs.StringAttributeProperty, xs.NodeStringProperty)):
        return list(info['enum'][:4])
    if cname in ('IntegerAttributeProperty', 'NodeIntProperty', 'UnsignedIntAttributeProperty', 'VersionCounterAttributeProperty',
                 'ReferencedVersionAttributeProperty'):
        signed = info is not None and info['builtin'] in xsdmodel.SIGNED and not xsdmodel.is_unsigned(info)
        if cname in ('IntegerAttributeProperty', 'NodeIntProperty') and signed:
            return [3, 0, -7, 2147483647]
        big = 4294967295 if (info is None or info['builtin'] in ('unsignedLong', 'unsignedInt', 'nonNegativeInteger', None)) else 255
        return [3, 0, big]
    if cname in ('AnyEtreeNodeProperty',):
        return [ext_elements(0), ext_elements(1)]
    if cname in ('AnyEtreeNodeListProperty',):
        return [ext_elements(0), ext_elements(1)]
    if cname in ('SubElementProperty', 'ContainerProperty', 'SubElementWithSubElementListProperty'):
        vc = getattr(prop, 'value_class', None)
        out = []
        cands = ([vc] if vc is not None else [])
        if vc is not None and cname != 'SubElementWithSubElementListProperty' and depth > 0:
            cands += subclasses_with_type(vc, x)
        for c in cands:
            inst = reflect.new(c)
            if inst is None:
                continue
            m = value_model(inst, x)
            if m is not None and m.abstract and getattr(c, 'NODETYPE', None) is None:
                continue
            fill(inst, depth - 1, variant=0, everything=depth > 0, model=m)
            out.append(inst)
        return out
    if owner_cls.__name__ == 'Metadata' and name == 'MetadataSection':
        from sdc11073.xml_types import mex_types
        secs = []
        for n in ('ThisModelMetadataSection', 'ThisDeviceMetadataSection', 'RelationshipMetadataSection', 'LocationMetadataSection'):
            c = getattr(mex_types, n, None)
            inst = reflect.new(c) if c is not None else None
            if inst is not None:
                fill(inst, depth - 1, variant=0, everything=True, model=None)
                if getattr(inst, 'MetadataReference', None) is not None:
                    inst.Location = None      # wsx:MetadataSection is a choice: embedded metadata or a location
                secs.append(inst)
        return [secs[:1], secs] if secs else []
    if cname in ('SubElementListProperty', 'ContainerListProperty'):
        vc = getattr(prop, 'value_class', None)
        cands = ([vc] if vc is not None else []) + (subclasses_with_type(vc, x) if vc is not None and depth > 0 else [])
        insts = []
        for c in cands:
            for variant in ((0, 1) if depth > 0 else (0,)):
                inst = reflect.new(c)
                if inst is None:
                    continue
                m = value_model(inst, x)
                if m is not None and m.abstract and getattr(c, 'NODETYPE', None) is None:
                    continue
                fill(inst, depth - 1, variant=variant, everything=depth > 0, model=m)
                insts.append(inst)
        if not insts:
            return []
        out = [[insts[0]], insts[:2]]
        if len(insts) > 2:
            out.append(insts)
        return _list_bounds(out, x)
    dom = reflect.domain(prop, max(depth, 0))
    if dom and isinstance(dom[0], list):
        dom = _list_bounds(dom, x)
    return dom


def _list_bounds(lists, x):
    if isinstance(x, xsdmodel.Child):
        lists = [v for v in lists if x.min <= len(v) <= x.max]
    return lists


def _choice_taken(obj, model, but):
    for n, p in obj.sorted_container_properties():
        if n == but:
            continue
        x = member_xsd(model, p)
        if isinstance(x, xsdmodel.Child) and x.in_choice and p.get_actual_value(obj) not in (None, []):
            return True
    return False


def members(obj):
    return [(n, p) for n, p in obj.sorted_container_properties()]


def fill(obj, depth, variant=0, everything=False, model=None):
    """Give the mandatory members (mandatory for the library or required by the XSD) - with everything=True all
    members - a value. Mandatory members are filled at any depth."""
    for name, prop in members(obj):
        x = member_xsd(model, prop)
        cur = prop.get_actual_value(obj)
        if reflect.is_struct(cur):
            fill(cur, depth - 1, variant, everything, value_model(cur, x))
            continue
        if cur not in (None, []):
            continue
        if isinstance(x, xsdmodel.Child) and x.in_choice and _choice_taken(obj, model, name):
            continue      # the schema allows one member of the choice only
        needed = (not getattr(prop, 'is_optional', True)) or xsd_required(x) or (
            type(prop).__name__ == 'ContainerProperty' and getattr(prop, '_sub_element_name', 1) is None)
        if not everything and not needed:
            continue
        if everything and depth < 0 and not needed:
            continue
        try:
            dom = domain(type(obj), name, prop, depth, x)
        except Exception:  # noqa: BLE001
            dom = []
        if not dom:
            continue
        val = dom[variant % len(dom)]
        try:
            setattr(obj, name, _fresh(val))
        except Exception:  # noqa: BLE001
            continue
    return obj


def _fresh(val):
    """Every use of a domain value gets its own copy (lxml elements included; lxml QNames cannot be deep-copied and are
    immutable)."""
    if val is None or isinstance(val, (etree.QName, str, int, float, Decimal, bool)):
        return val
    if isinstance(val, etree._Element):  # noqa: SLF001
        return copy.deepcopy(val)
    if isinstance(val, list):
        out = copy.copy(val)
        out[:] = [_fresh(v) for v in val]
        return out
    if reflect.is_struct(val):
        out = copy.copy(val)
        for name, prop in members(val):
            cur = prop.get_actual_value(val)
            if cur is not None:
                try:
                    setattr(out, name, _fresh(cur))
                except Exception:  # noqa: BLE001
                    pass
        if getattr(val, 'node', None) is not None:
            out.node = None
        return out
    try:
        return copy.deepcopy(val)
    except Exception:  # noqa: BLE001
        return val


# ---------------------------------------------------------------------------------------------- the checks on one instance
def write(obj, tag):
    from sdc11073.namespaces import default_ns_helper as nsh
    if hasattr(obj, 'mk_node'):
        return obj.mk_node(tag, nsh)
    return obj.as_etree_node(tag, nsh.ns_map)


def c14n(node):
    return etree.tostring(node, method='c14n', exclusive=False)


def judge(cls, obj, target, label):
    """-> list of (kind, detail)"""
    problems = []
    if target is not None and target[0] == 'element':
        tag = etree.QName(target[1], target[2])
        validator = schema.validator()
    elif target is not None:
        v, names = wrapper_validator()
        tag = etree.QName(WRAP_NS, names[(target[1], target[2])])
        validator = v
    else:
        tag = reflect.TAG
        validator = None
    extra_before = _extra_canon(obj)
    try:
        node = write(obj, tag)
    except Exception as ex:  # noqa: BLE001
        return [('write-raises', f'{type(ex).__name__}: {str(ex)[:200]}')], None
    if _extra_canon(obj) != extra_before:
        problems.append(('write-changed-the-value', f'{extra_before} -> {_extra_canon(obj)}'[:400]))
    if node is None:
        return [], None     # the class has no XML representation of its own (e.g. UnsubscribeResponse: empty body)
    xml1 = c14n(node)
    # (1) schema
    if validator is not None:
        doc = etree.fromstring(etree.tostring(node))
        if not validator.validate(doc):
            msg = '; '.join(e.message for e in list(validator.error_log)[:2])
            problems.append(('schema-invalid', msg[:400]))
    # (3a) write again from the same value: same XML, and the first node is still the same
    try:
        node_again = write(obj, tag)
        if c14n(node_again) != xml1:
            problems.append(('second-write-differs', _first_diff(xml1, c14n(node_again))))
        if c14n(node) != xml1:
            problems.append(('write-changed-earlier-output', _first_diff(xml1, c14n(node))))
    except Exception as ex:  # noqa: BLE001
        problems.append(('second-write-raises', repr(ex)[:200]))
    # (2) parse back
    src_doc = etree.fromstring(xml1)
    try:
        back = reflect.from_node(cls, src_doc, obj)
    except Exception as ex:  # noqa: BLE001
        problems.append(('parse-raises', f'{type(ex).__name__}: {str(ex)[:200]}'))
        return problems, xml1
    a, b = norm(expected_canon(obj)), norm(canon.canon_obj(back))
    if a != b:
        problems.append(('round-trip-differs', _canon_diff(a, b)))
    ea, eb = [(m, tuple(v[0] for v in vals)) for m, vals in extra_before], [(m, tuple(v[0] for v in vals)) for m, vals in _extra_canon(back)]
    if ea != eb:
        problems.append(('round-trip-differs', f'hand-written members: {ea} != {eb}'[:400]))
    # (3b) write the parsed value: same XML; the document it was parsed from stays as it was
    try:
        node2 = write(back, tag)
        xml2 = c14n(node2)
        if xml2 != xml1:
            problems.append(('rewrite-differs', _first_diff(xml1, xml2)))
        if c14n(src_doc) != xml1:
            problems.append(('write-changed-source-document', _first_diff(xml1, c14n(src_doc))))
        node3 = write(back, tag)
        if c14n(node3) != xml2:
            problems.append(('second-rewrite-differs', _first_diff(xml2, c14n(node3))))
    except Exception as ex:  # noqa: BLE001
        problems.append(('rewrite-raises', repr(ex)[:200]))
    del label
    return problems, xml1


def norm(c):
    """Canonical form for the comparison: the parent handle of a nested descriptor is not a member (it comes from the
    enclosing report part), an empty list and an absent list are the same XML."""
    if isinstance(c, tuple):
        if len(c) == 2 and c[0] == 'parent':
            return ('parent',)
        out = tuple(norm(x) for x in c)
        return None if out == () else out
    return c


def expected_canon(obj):
    """What reading back must give: the value itself; an absent member that has a documented default reads as that
    default (the property allows exactly this)."""
    c = canon.canon_obj(obj)
    try:
        head, body = c
        body = list(body)
    except (TypeError, ValueError):
        return c
    props = dict(members(obj))
    for i, item in enumerate(body):
        if not (isinstance(item, tuple) and len(item) == 2):
            continue
        mname, val = item
        prop = props.get(mname)
        default = getattr(prop, '_default_py_value', None) if prop is not None else None
        from sdc11073.xml_types import xml_structure as xs
        if val is None and default is not None and isinstance(prop, xs._ElementBase):  # noqa: SLF001
            body[i] = (mname, canon.canon_value(default) if not reflect.is_struct(default) else canon.canon_obj(default))
    return (head, tuple(body))


def _first_diff(a, b):
    i = 0
    n = min(len(a), len(b))
    while i < n and a[i] == b[i]:
        i += 1
    return {'at': i, 'first': a[max(0, i - 60):i + 80].decode('utf-8', 'replace'), 'second': b[max(0, i - 60):i + 80].decode('utf-8', 'replace')}


def _canon_diff(a, b):
    try:
        da, db = dict(a[1]), dict(b[1])
        keys = [k for k in da if da.get(k) != db.get(k)] + [k for k in db if k not in da]
        return {k: {'written': str(da.get(k))[:160], 'read': str(db.get(k))[:160]} for k in keys[:4]}
    except Exception:  # noqa: BLE001
        return {'written': str(a)[:200], 'read': str(b)[:200]}


def identity_problems(cls, base, target):
    """(4) two parses of the same XML share nothing mutable, neither with each other nor with class-level defaults."""
    problems = []
    tag = reflect.TAG
    try:
        node = write(base, tag)
        x = reflect.from_node(cls, etree.fromstring(etree.tostring(node)), base)
        y = reflect.from_node(cls, etree.fromstring(etree.tostring(node)), base)
    except Exception:  # noqa: BLE001
        return problems
    ids_x = {id(o): p for p, o in reflect.nested_mutables(x)}
    for p, o in reflect.nested_mutables(y):
        if id(o) in ids_x and not isinstance(o, (str, bytes, int, float, Decimal, tuple, frozenset)):
            problems.append(('parsed-objects-share-member', '.'.join(map(str, p))))
            break
    for name, prop in members(cls) if False else []:
        del name, prop
    for p, o in reflect.nested_mutables(x, depth=1):
        prop = dict(members(x)).get(p[0]) if len(p) == 1 else None
        if prop is not None:
            for attr in ('_default_py_value', '_implied_py_value'):
                d = getattr(prop, attr, None)
                if d is not None and d is o:
                    problems.append(('parsed-member-is-class-default', p[0]))
    del target
    return problems


# ---------------------------------------------------------------------------------------------- enumeration per class
def base_instance(cls):
    obj = reflect.new(cls)
    if obj is None:
        return None
    return fill(obj, 2, everything=False, model=class_model(cls))


def deviations(cls, depth=2):
    """[(label, member, value)] - single deviations from the base instance, inside the schema's value space."""
    proto = base_instance(cls)
    if proto is None:
        return []
    model = class_model(cls)
    out = []
    for name, prop in members(proto):
        x = member_xsd(model, prop)
        if isinstance(x, xsdmodel.Child) and x.in_choice and _choice_taken(proto, model, name):
            continue      # a second member of a schema choice: outside the schema's value space
        try:
            dom = domain(cls, name, prop, depth, x)
        except Exception:  # noqa: BLE001
            dom = []
        for i, val in enumerate(dom):
            out.append((f'{name}#{i}', name, val))
        if getattr(prop, 'is_optional', True) and not xsd_required(x) and prop.get_actual_value(proto) not in (None, []):
            out.append((f'{name}#absent', name, None))
    for member, makers in EXTRA_MEMBERS.get(cls.__name__, {}).items():
        for i, mk in enumerate(makers):
            out.append((f'{member}#{i}', member, mk()))
    return out


def _ref_param(i):
    el = etree.Element(etree.QName('http://verif.example/ref', f'Ident{i}'), nsmap={'vr': 'http://verif.example/ref'})
    el.text = f'id-{i} <&>'
    el.set('flag', 'x')
    if i:
        etree.SubElement(el, etree.QName('http://verif.example/ref', 'Nested')).text = 'n'
    return el


# XML-relevant members that are not declared container properties (written / read by hand-written code)
EXTRA_MEMBERS = {
    'HeaderInformationBlock': {'reference_parameters': [lambda: [_ref_param(0)], lambda: [_ref_param(0), _ref_param(1)]]},
}


def _extra_canon(obj):
    """Canonical form of the hand-written members: C14N text of every element, the wsa:IsReferenceParameter mark dropped."""
    out = []
    for member in EXTRA_MEMBERS.get(type(obj).__name__, {}):
        vals = []
        for el in getattr(obj, member) or []:
            cp = copy.deepcopy(el)
            for a in list(cp.attrib):
                if a.endswith('}IsReferenceParameter'):
                    del cp.attrib[a]
            vals.append((etree.tostring(cp, method='c14n', exclusive=True), el.getparent() is not None))
        out.append((member, tuple(vals)))
    return tuple(out)


class ReadBackDiffers(Exception):
    pass


def apply(cls, devs):
    obj = base_instance(cls)
    for _, name, val in devs:
        setattr(obj, name, _fresh(val))
        # what was assigned is what is read (no implied / default value may take the place of a falsy one)
        if isinstance(val, (bool, int, float, Decimal, str)) and name not in EXTRA_MEMBERS.get(cls.__name__, {}):
            got = getattr(obj, name)
            if got != val or (isinstance(val, bool) and got is not val):
                raise ReadBackDiffers(f'{name}: assigned {val!r}, read back {got!r}')
    return obj


def _scalar_lists(obj, depth=2):
    """Paths to list-valued members whose elements are scalars (Decimal, str, int, enum), down to `depth` nested values."""
    out = []
    if not hasattr(obj, 'sorted_container_properties'):
        return out
    for name, _prop in obj.sorted_container_properties():
        try:
            v = getattr(obj, name)
        except Exception:  # noqa: BLE001
            continue
        if isinstance(v, list) and v:
            if hasattr(v[0], 'sorted_container_properties'):
                if depth > 0:
                    out += [((name, 0) + p) for p in _scalar_lists(v[0], depth - 1)]
            elif not isinstance(v[0], (etree._Element, list, dict)):
                out.append((name,))
        elif hasattr(v, 'sorted_container_properties') and depth > 0:
            out += [((name,) + p) for p in _scalar_lists(v, depth - 1)]
    return out


def _resolve_path(obj, path):
    for el in path:
        obj = obj[el] if isinstance(el, int) else getattr(obj, el)
    return obj


def inplace_problems(make_obj, tag):
    """Write, edit scalar lists in place, write again: the second output must be what a never-written equal value gives
    (no converted text may be remembered from the first write)."""
    a, b = make_obj(), make_obj()
    try:
        if write(a, tag) is None:
            return []
    except Exception:  # noqa: BLE001
        return []
    paths = _scalar_lists(a)
    if not paths:
        return []
    for edit in ('append-first', 'replace-last'):
        for path in paths:
            for o in (a, b):
                lst = _resolve_path(o, path)
                if edit == 'append-first':
                    lst.append(lst[0])
                else:
                    lst[-1] = lst[0]
        try:
            xa, xb = c14n(write(a, tag)), c14n(write(b, tag))
        except Exception as ex:  # noqa: BLE001
            return [('write-after-in-place-edit-raises', repr(ex)[:200])]
        if xa != xb:
            return [('write-after-in-place-edit-differs', f'{edit} at {paths[:3]}: {_first_diff(xb, xa)}'[:400])]
    return []


_ALT_NSH = []


def alt_nsh():
    """A second NamespaceHelper: the same namespaces under other prefixes (an application may write its documents that way)."""
    if not _ALT_NSH:
        import enum
        from sdc11073 import namespaces as ns
        members = {m.name: ns.PrefixNamespace((m.value.prefix if m.value.prefix in ('xsi', 'xml', 'xsd') else 'p' + m.value.prefix), m.value.namespace,
                                              m.value.schema_location_url, m.value.local_schema_file) for m in ns.PrefixesEnum}
        alt_enum = enum.Enum('AltPrefixes', members, type=ns.PrefixNamespace)
        _ALT_NSH.append(ns.NamespaceHelper(alt_enum))
    return _ALT_NSH[0]


def other_prefixes_problems(cls, make_obj, tag, validator):
    """The value written once with the default prefixes and then with other prefixes for the same namespaces: the second
    document is schema-valid as well and parses to the same value (no prefix may be remembered from the first document)."""
    obj = make_obj()
    nsh2 = alt_nsh()
    try:
        if write(obj, tag) is None:
            return []
    except Exception:  # noqa: BLE001   the plain write fails already: judged (and reported) there
        return []
    try:
        node2 = obj.mk_node(tag, nsh2) if hasattr(obj, 'mk_node') else obj.as_etree_node(tag, nsh2.ns_map)
    except Exception as ex:  # noqa: BLE001
        return [('write-with-other-prefixes-raises', repr(ex)[:200])]
    try:
        doc = etree.fromstring(etree.tostring(node2))
    except etree.XMLSyntaxError as ex:
        return [('document-with-other-prefixes-not-well-formed', str(ex)[:200])]
    problems = []
    if validator is not None and not validator.validate(doc):
        msg = '; '.join(e.message for e in list(validator.error_log)[:2])
        problems.append(('schema-invalid-with-other-prefixes', msg[:300]))
    try:
        back = reflect.from_node(cls, doc, obj)
        a, b = norm(expected_canon(obj)), norm(canon.canon_obj(back))
        if a != b:
            problems.append(('round-trip-differs-with-other-prefixes', _canon_diff(a, b)))
    except Exception as ex:  # noqa: BLE001
        problems.append(('parse-raises-with-other-prefixes', f'{type(ex).__name__}: {str(ex)[:200]}'))
    return problems


def list_whitespace_problems(cls, make_obj, tag):
    """xs:list values may be separated by any white space (blank, tab, line break, several of them): the same XML with the
    separators of its list-typed members re-spelled must parse to the same value."""
    from sdc11073.xml_types import xml_structure as xs
    obj = make_obj()
    try:
        node = write(obj, tag)
    except Exception:  # noqa: BLE001
        return []
    if node is None:
        return []
    original = etree.fromstring(etree.tostring(node))
    variant = etree.fromstring(etree.tostring(node))
    changed = []
    for name, prop in members(obj):
        if isinstance(prop, xs._AttributeListBase):  # noqa: SLF001
            attr = getattr(prop, '_attribute_name', None)
            v = variant.get(attr) if attr else None
            if v and ' ' in v.strip():
                variant.set(attr, v.replace(' ', '\n\t'))      # the parser normalises line breaks in attributes to blanks
                changed.append(name)
        elif type(prop).__name__ in ('NodeTextListProperty', 'NodeTextQNameListProperty'):
            sub_name = getattr(prop, '_sub_element_name', None)
            sub = variant.find(sub_name) if sub_name is not None else variant
            if sub is not None and sub.text and ' ' in sub.text.strip():
                sub.text = '\n\t' + sub.text.strip().replace(' ', '\n\t\t') + '\n'
                changed.append(name)
    if not changed:
        return []
    variant = etree.fromstring(etree.tostring(variant))
    try:
        a = norm(canon.canon_obj(reflect.from_node(cls, original, obj)))
        b = norm(canon.canon_obj(reflect.from_node(cls, variant, obj)))
    except Exception as ex:  # noqa: BLE001
        return [('list-with-other-whitespace-raises', f'{changed}: {ex!r}'[:300])]
    if a != b:
        return [('list-with-other-whitespace-parsed-differently', f'{changed}: {_canon_diff(a, b)}'[:400])]
    return []


def _class_job(acc, arg):
    name, pairs = arg
    world.install()     # virtual clock: CurrentTimestamp members write the same instant every time
    cls = dict(reflect.all_classes())[name]
    target = xsd_target(cls)
    base = base_instance(cls)
    if base is None:
        acc.note(f'not-constructible[{name}]', True)
        return
    acc.add('classes', 1)
    acc.add('classes-validated-against-xsd' if target else 'classes-round-trip-only', 1)
    cases = [('base', [])]
    devs = deviations(cls)
    cases += [(d[0], [d]) for d in devs]
    for variant in (0, 1):
        cases.append((f'all-members#{variant}', None if variant == 0 else 'v1'))
    if pairs:
        by_member = {}
        for d in devs:
            by_member.setdefault(d[1], []).append(d)
        for m1, m2 in itertools.combinations(sorted(by_member), 2):
            for d1 in by_member[m1][:2]:
                for d2 in by_member[m2][:2]:
                    cases.append((f'{d1[0]}+{d2[0]}', [d1, d2]))
    seen_kinds = set()
    failing = {}
    for label, devlist in cases:
        try:
            if label.startswith('all-members'):
                obj = reflect.new(cls)
                fill(obj, 2, variant=0 if devlist is None else 1, everything=True, model=class_model(cls))
            else:
                obj = apply(cls, devlist)
        except ReadBackDiffers as ex:
            acc.violation(f'read-back-differs/{name}/{label.split("#")[0]}', {'class': name, 'instance': label, 'detail': str(ex)},
                          case={'class': name, 'label': label})
            continue
        except Exception as ex:  # noqa: BLE001
            # the library refuses the value on assignment (strict type checking): not an instance it can represent
            acc.add('assignments-refused', 1)
            del ex
            continue
        problems, xml = judge(cls, obj, target, label)
        if label == 'base' or label.startswith('all-members') or (devlist and len(devlist) == 1 and isinstance(devlist[0][2], list)):
            def make_obj(label=label, devlist=devlist):
                if label.startswith('all-members'):
                    o = reflect.new(cls)
                    fill(o, 2, variant=0 if devlist is None else 1, everything=True, model=class_model(cls))
                    return o
                return apply(cls, devlist)
            tag = etree.QName(target[1], target[2]) if target is not None and target[0] == 'element' else reflect.TAG
            problems = problems + inplace_problems(make_obj, tag)
            problems = problems + list_whitespace_problems(cls, make_obj, tag)
            vv = schema.validator() if target is not None and target[0] == 'element' else None
            problems = problems + other_prefixes_problems(cls, make_obj, tag, vv)
        acc.evals()
        acc.trace()
        acc.transition()
        acc.state(h64(('c05', name, label)))
        if xml is not None:
            acc.nontrivial(h64(xml))
        if len(acc.samples) < 2:
            acc.sample({'class': name, 'instance': label, 'validated_against': list(target) if target else 'round trip only',
                        'xml_bytes': len(xml) if xml is not None else None, 'problems': [k for k, _ in problems]})
        parts = [x.split('#')[0] for x in label.split('+')]
        for kind, detail in problems:
            if label.startswith(('base', 'all-members')):
                who = label.split('#')[0]
            elif len(parts) == 1:
                who = parts[0]
                failing.setdefault(who, set()).add(kind)
            else:
                # a pair: if one of its members fails the same way on its own, it is that member's finding
                culprit = [m for m in parts if kind in failing.get(m, ())]
                if not culprit and kind in failing.get('base', ()):
                    culprit = ['base']
                who = culprit[0] if culprit else '+'.join(parts)
            if label == 'base':
                failing.setdefault('base', set()).add(kind)
            key = f'{kind}/{name}/{who}'
            if key in seen_kinds:
                continue
            seen_kinds.add(key)
            acc.violation(key, {'class': name, 'instance': label, 'detail': detail, 'xml': (xml or b'')[:600].decode('utf-8', 'replace')},
                          case={'class': name, 'label': label})
    for kind, detail in identity_problems(cls, base, target):
        acc.violation(f'{kind}/{name}/{detail}', {'class': name}, case={'class': name, 'label': 'base'})
    # implied == explicit: for every optional member with an implied value, writing it explicitly parses to an equal value
    for mname, prop in members(base):
        implied = getattr(prop, '_implied_py_value', None)
        if implied is None:
            continue
        try:
            obj = apply(cls, [(f'{mname}#implied', mname, implied)])
            node = write(obj, reflect.TAG)
            back = reflect.from_node(cls, etree.fromstring(etree.tostring(node)), obj)
            node0 = write(base_instance(cls), reflect.TAG)
            back0 = reflect.from_node(cls, etree.fromstring(etree.tostring(node0)), obj)
        except Exception:  # noqa: BLE001
            continue
        acc.evals()
        if canon.canon_obj(back) != canon.canon_obj(back0) or getattr(back0, mname) != implied:
            acc.violation(f'implied-value-differs/{name}/{mname}',
                          {'implied': str(implied), 'read_when_absent': str(getattr(back0, mname)), 'read_when_explicit': str(getattr(back, mname))},
                          case={'class': name, 'label': f'{mname}#implied'})


def run(ctx):
    world.install()
    classes = [n for n, c in reflect.all_classes() if not n.split('.')[-1].startswith('Abstract') and n != 'pm_types.PropertyBasedPMType']
    ctx.note('classes', len(classes))
    mapped = sum(1 for n, c in reflect.all_classes() if n in classes and xsd_target(c) is not None)
    ctx.note('classes_with_xsd_type_or_element', mapped)
    ctx.note('classes_validated_only_inside_their_owner', sorted(n for n, c in reflect.all_classes() if n in classes and xsd_target(c) is None))
    ctx.pmap(_class_job, [(n, not ctx.quick) for n in ctx.rotate(classes)], chunksize=1)
    ctx.note('bounds', 'per class: base instance, every single member deviation over the member domain (2-6 values, all enum '
                       'members up to 6, every xsi:type substitution, lists of length 0/1/2+), two fully populated variants, nested '
                       'depth 2' + ('' if ctx.quick else ', every pair of members x 2 values each'))


def replay(ctx, case):
    world.install()
    cls = dict(reflect.all_classes())[case['class']]
    label = case['label']
    devs = {d[0]: d for d in deviations(cls)}
    if label.startswith('all-members'):
        obj = reflect.new(cls)
        fill(obj, 2, variant=int(label.split('#')[1]), everything=True, model=class_model(cls))
    elif label == 'base':
        obj = base_instance(cls)
    elif label.endswith('#implied'):
        m = label.split('#')[0]
        obj = apply(cls, [(label, m, getattr(dict(members(base_instance(cls)))[m], '_implied_py_value'))])
    else:
        obj = apply(cls, [devs[x] for x in label.split('+')])
    problems, xml = judge(cls, obj, xsd_target(cls), label)
    for kind, detail in problems:
        ctx.violation(f'{kind}/{case["class"]}', detail)
    return {'xml': (xml or b'').decode('utf-8', 'replace')[:3000], 'problems': [p[0] for p in problems]}
