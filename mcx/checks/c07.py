"""C07 - Get responses are consistent snapshots under concurrent transactions (schedule exploration)."""
from __future__ import annotations

from decimal import Decimal

from lxml import etree

from mcx import alphabet as A
from mcx import canon, sched, world
from mcx.runner import h64

PROPERTY = 'C07'
TECHNIQUE = ('stateless preemption-bounded exploration of all interleavings, at lock acquire/release granularity, of real Get '
             'request threads with real committing writer threads under a cooperative baton scheduler; every response is '
             'compared with the per-version snapshot history recorded by the harness')

MSG = 'http://standards.ieee.org/downloads/11073/11073-10207-2017/message'


# ------------------------------------------------------------------ thread bodies
def w_metric(p, v):
    def body():
        with p.mdib.metric_state_transaction() as tr:
            for h in (A.NUM1, A.NUM2):
                st = tr.get_state(h)
                if st.MetricValue is None:
                    st.mk_metric_value()
                st.MetricValue.Value = Decimal(v)
    return body


def w_location(p):
    return lambda: A.EVENT_BY_NAME['location(1)'](p)


def w_patient(p):
    return lambda: A.EVENT_BY_NAME['patient-new(A)'](p)


def w_descr_update(p):
    return lambda: A.EVENT_BY_NAME['update-descr+state(N1)'](p)


def w_descr_create(p):
    return lambda: A.EVENT_BY_NAME['create-metric'](p)


def w_descr_delete(p):
    return lambda: A.EVENT_BY_NAME['delete(N2)'](p)


def w_event(name):
    return lambda p: (lambda: A.EVENT_BY_NAME[name](p))


def w_patient_then_remove(p):
    """Two commits of one writer: a new patient context state, then its deletion in a context transaction of its own (entity
    interface; the library sends no report for it, but it is a commit: a new MdibVersion)."""
    def body():
        A.EVENT_BY_NAME['patient-new(A)'](p)
        A.patient_ctx_remove('first')(p)
    return body


WRITERS = {'patient+ctx-remove': w_patient_then_remove, 'metric': lambda p: w_metric(p, 7), 'metric2': lambda p: w_metric(p, 8), 'location': w_location,
           'rt': w_event('rt(1,2,3)'), 'alert': w_event('alert-cond(on)'), 'component': w_event('component(vmd0,on)'),
           'operational': w_event('operational(dis)'),
           'patient': w_patient, 'descr-update': w_descr_update, 'descr-create': w_descr_create,
           'descr-delete': w_descr_delete}

REQUESTS = {
    # name: (service path element, message class name, handles)
    'GetMdib': ('Get', 'GetMdib', None),
    'GetMdState(all)': ('Get', 'GetMdState', None),
    'GetMdState(N1,N2,PAT)': ('Get', 'GetMdState', [A.NUM1, A.NUM2, A.PAT]),
    'GetMdDescription': ('Get', 'GetMdDescription', None),
    'GetMdDescription(N1)': ('Get', 'GetMdDescription', [A.NUM1]),
    'GetMdDescription(N2)': ('Get', 'GetMdDescription', [A.NUM2]),
    'GetMdDescription(NEW)': ('Get', 'GetMdDescription', [A.NEW]),
    'GetMdState(NEW)': ('Get', 'GetMdState', [A.NEW]),
    'GetMdState(N2)': ('Get', 'GetMdState', [A.NUM2]),
    'GetContextStates': ('StateEvent', 'GetContextStates', None),
    'GetContextStates(LOC)': ('StateEvent', 'GetContextStates', [A.LOC]),
}


class _Res:
    """Parsed response in the shape the oracle needs (what the consumer service clients produce)."""

    def __init__(self, name, received, reader):
        from sdc11073.xml_types import msg_types
        self.p_msg = received.p_msg
        self.mdib_version_group = received.mdib_version_group
        kind = name.split('(')[0]
        if kind == 'GetMdib':
            self.result = reader.read_get_mdib_response(received)
        elif kind == 'GetMdState':
            self.result = msg_types.GetMdStateResponse.from_node(received.p_msg.msg_node)
        elif kind == 'GetMdDescription':
            self.result = None
        else:
            self.result = msg_types.GetContextStatesResponse.from_node(received.p_msg.msg_node)

SCENARIOS = [
    # (requests, writers)
    (['GetMdib'], ['metric']),
    (['GetMdState(N1,N2,PAT)'], ['metric']),
    (['GetMdState(all)'], ['patient']),
    (['GetMdDescription'], ['descr-update']),
    (['GetMdDescription(N1)'], ['descr-create']),
    (['GetContextStates'], ['location']),
    (['GetContextStates(LOC)'], ['location']),
    (['GetMdib'], ['descr-create']),
    (['GetMdib'], ['location']),
    (['GetMdState(all)'], ['descr-delete']),
    (['GetMdState(N1,N2,PAT)'], ['descr-update']),
    (['GetContextStates'], ['patient']),
    # every transaction kind against the two requests that return all states
    (['GetMdib'], ['rt']),
    (['GetMdState(all)'], ['rt']),
    (['GetMdib'], ['alert']),
    (['GetMdState(all)'], ['component']),
    (['GetMdib'], ['operational']),
    # the requested handle itself is deleted / created by the concurrent transaction
    (['GetMdDescription(N2)'], ['descr-delete']),
    (['GetMdDescription(NEW)'], ['descr-create']),
    (['GetMdState(N2)'], ['descr-delete']),
    (['GetMdState(NEW)'], ['descr-create']),
    (['GetContextStates'], ['patient+ctx-remove']),
    (['GetMdib'], ['patient+ctx-remove']),
]
SCENARIOS_2 = [
    (['GetMdib'], ['metric', 'metric2']),
    (['GetMdState(N1,N2,PAT)', 'GetContextStates'], ['location']),
    (['GetMdState(N1,N2,PAT)'], ['metric', 'descr-update']),
    (['GetContextStates'], ['location', 'patient']),
    (['GetMdDescription'], ['descr-create', 'descr-delete']),
    (['GetMdib', 'GetMdState(all)'], ['metric']),
]


# statement-granularity pass: every statement of the Get handlers / the MDIB reconstruction and of the commit path of a
# transaction is a scheduling point (one preemption): a critical section that lost its lock, or two statements that were
# moved out of it, are then visible although no lock operation separates them any more
LINE_ANCHORS = [
    ('provider/porttypes/getserviceimpl.py', '_on_get_md_state'),
    ('provider/porttypes/getserviceimpl.py', '_on_get_mdib'),
    ('provider/porttypes/getserviceimpl.py', '_on_get_md_description'),
    ('provider/porttypes/getserviceimpl.py', 'mk_get_mddescription_response_message'),
    ('provider/porttypes/contextserviceimpl.py', '_on_get_context_states'),
    ('mdib/mdibbase.py', 'reconstruct_mdib'),
    ('mdib/mdibbase.py', 'reconstruct_mdib_with_context_states'),
    ('mdib/mdibbase.py', 'reconstruct_md_description'),
    ('mdib/mdibbase.py', '_reconstruct_mdib'),
    ('mdib/mdibbase.py', '_reconstruct_md_description'),
    ('mdib/mdibbase.py', 'mdib_version_group'),
    ('mdib/providermdib.py', '_transaction_manager'),
    ('mdib/providermdib.py', '_process_transaction'),
    ('mdib/providermdib.py', 'process_transaction'),
    ('mdib/transactions.py', 'process_transaction'),
    ('mdib/transactions.py', '_handle_state_updates'),
    ('mdib/transactions.py', '_handle_descriptors'),
    ('mdib/transactions.py', '_handle_states'),
    ('mdib/transactions.py', '_handle_modifications'),
    ('mdib/transactions.py', '_handle_deletes'),
    ('mdib/transactions.py', '_handle_updates'),
    ('mdib/transactions.py', '_handle_creates'),
    ('mdib/transactions.py', '_update_corresponding_state'),
    ('mdib/transactions.py', '_increment_parent_descriptor_version'),
]
LINE_SCENARIOS = [
    (['GetMdib'], ['metric']),
    (['GetMdState(N1,N2,PAT)'], ['metric']),
    (['GetMdState(all)'], ['patient']),
    (['GetMdDescription'], ['descr-update']),
    (['GetMdDescription(N1)'], ['descr-create']),
    (['GetContextStates'], ['location']),
    (['GetContextStates(LOC)'], ['patient']),
    (['GetMdib'], ['descr-create']),
    (['GetMdib'], ['location']),
    (['GetMdState(all)'], ['descr-delete']),
    (['GetMdDescription(N2)'], ['descr-delete']),
    (['GetMdDescription(NEW)'], ['descr-create']),
]


class Run:
    """One execution: fresh world, threads, schedule prefix."""

    def __init__(self, scenario, prefix, lines=False):
        self.requests, self.writers = scenario
        self.s = sched.Scheduler(prefix)
        if lines:
            self.s.line_anchors = _ANCHORS
        world.install()
        w = world.World()
        world.ENV.sched = self.s
        try:
            self.w = w
            self.p = w.mk_provider()
        except BaseException:
            world.ENV.sched = None
            raise
        from sdc11073.pysoap.msgreader import MessageReader
        from sdc11073 import loghelper
        self.reader = MessageReader(self.p.mdib.sdc_definitions, None, loghelper.get_logger_adapter('verif.c07'), validate=True)
        self.req_bytes = {name: self._mk_request(name) for name in set(self.requests)}
        self.snaps = {self.p.mdib.mdib_version: canon.snapshot(self.p.mdib, with_lookup=False)}

        self.version_reused = []

        def on_commit(mdib, tr):
            snap = canon.snapshot(mdib, with_lookup=False)
            old = self.snaps.get(mdib.mdib_version)
            if old is not None and canon.content(old) != canon.content(snap):
                self.version_reused.append(mdib.mdib_version)      # two commits, two contents, one MdibVersion
            self.snaps[mdib.mdib_version] = snap
        self.p.mdib.post_commit_handler = on_commit
        self.results = {}
        for i, name in enumerate(self.requests):
            self.s.spawn(self._req(i, name), f'R{i}:{name}')
        for j, name in enumerate(self.writers):
            self.s.spawn(WRITERS[name](self.p), f'W{j}:{name}')

    def _mk_request(self, name):
        from sdc11073.xml_types import msg_types
        from sdc11073.xml_types.addressing_types import HeaderInformationBlock
        service, cls_name, handles = REQUESTS[name]
        payload = getattr(msg_types, cls_name)()
        if handles:
            payload.HandleRef.extend(handles)
        path = f'/{self.p.path_prefix}/{service}'
        inf = HeaderInformationBlock(action=payload.action, addr_to=f'http://10.0.0.1:8000{path}')
        return path, self.p.msg_factory.mk_soap_message(inf, payload=payload).serialize()

    def _req(self, i, name):
        def body():
            path, data = self.req_bytes[name]
            status, reason, body_bytes = self.p._msg_converter.do_post(world.mk_headers({'Host': '10.0.0.1:8000'}), path,
                                                                       ('10.0.0.2', 40001), data)
            if isinstance(body_bytes, str):
                body_bytes = body_bytes.encode()
            if status != 200:
                raise RuntimeError(f'{name}: HTTP {status} {body_bytes[:300]!r}')
            received = self.reader.read_received_message(body_bytes)
            self.results[i] = (name, _Res(name, received, self.reader))
        return body

    def go(self):
        try:
            self.s.run()
        finally:
            world.ENV.sched = None
        return self

    # ---- oracle
    def judge(self):
        problems = []
        for t in self.s.threads:
            if t.exc is not None:
                problems.append((f'thread-raised/{t.name.split(":")[1]}', repr(t.exc)[:200]))
        if isinstance(self.s.error, sched.Deadlock):
            problems.append(('deadlock', str(self.s.error)[:200]))
        if self.version_reused:
            problems.append(('one-mdib-version-names-two-contents', {'versions': self.version_reused}))
        for i, (name, res) in sorted(self.results.items()):
            p = self._judge_response(name, res)
            if p:
                problems.append(p)
        return problems

    def _judge_response(self, name, res):
        raw = res.p_msg if hasattr(res, 'p_msg') else res._received_message.p_msg if hasattr(res, '_received_message') else None
        group = res.mdib_version_group
        v = group.mdib_version
        snap = self.snaps.get(v)
        if snap is None:
            return (f'{name}/unknown-version', f'response states MdibVersion {v}, committed versions {sorted(self.snaps)}')
        content = canon.content(snap)
        if group.sequence_id != snap['sequence_id']:
            return (f'{name}/sequence-id', f'{group.sequence_id}')
        kind = name.split('(')[0]
        got = {}
        if kind == 'GetMdib':
            descrs, states = res.result
            for d in descrs:
                got[('d', d.Handle)] = canon.canon_obj(d)
            for s in states:
                got[canon.key_of(s)] = canon.canon_obj(s)
            want = dict(content)
            # the embedded Mdib element must state the same version as the response
            emb = res.p_msg.msg_node.find(f'{{{MSG}}}Mdib')
            if emb is not None and emb.get('MdibVersion') is not None and int(emb.get('MdibVersion')) != v:
                return (f'{name}/embedded-mdib-version-differs', {'response': v, 'embedded': emb.get('MdibVersion')})
        elif kind == 'GetMdState':
            for s in res.result.MdState.State:
                got[canon.key_of(s)] = canon.canon_obj(s)
            if name == 'GetMdState(all)':
                want = {k: c for k, c in content.items() if k[0] in ('s', 'c')}
            elif name in ('GetMdState(NEW)', 'GetMdState(N2)'):
                h = REQUESTS[name][2][0]
                want = {k: c for k, c in content.items() if k[0] == 's' and k[1] == h}
            else:
                want = {k: c for k, c in content.items()
                        if (k[0] == 's' and k[1] in (A.NUM1, A.NUM2)) or (k[0] == 'c' and dict(c[1]).get('DescriptorHandle') == A.PAT)}
        elif kind == 'GetMdDescription':
            # descriptors arrive as a tree: use the library reader on the MdDescription node
            node = res.p_msg.msg_node.find(f'{{{MSG}}}MdDescription')
            for d in self.reader._read_md_description_node(node):
                got[('d', d.Handle)] = canon.canon_obj(d)
            want = {k: c for k, c in content.items() if k[0] == 'd'}
            handles = REQUESTS[name][2]
            if handles and not any(('d', h) in content for h in handles):
                want = {}      # none of the requested handles exists at the stated version: empty description
        else:
            for s in res.result.ContextState:
                got[('c', s.Handle)] = canon.canon_obj(s)
            if name == 'GetContextStates':
                want = {k: c for k, c in content.items() if k[0] == 'c'}
            else:
                want = {k: c for k, c in content.items() if k[0] == 'c' and dict(c[1]).get('DescriptorHandle') == A.LOC}
        if set(got) != set(want):
            return (f'{name}/entity-set-differs-from-version',
                    {'MdibVersion': v, 'missing': sorted(map(str, set(want) - set(got)))[:4],
                     'extra': sorted(map(str, set(got) - set(want)))[:4]})
        for k in got:
            if got[k] != want[k]:
                other = [ov for ov, s in self.snaps.items() if canon.content(s).get(k) == got[k]]
                return (f'{name}/content-differs-from-stated-version',
                        {'stated_MdibVersion': v, 'entity': str(k), 'content_matches_versions': other,
                         'diff': canon._item_diff(want[k], got[k])})
        return None


def _request_message(res):
    return res


MAJOR = ('mdib_lock', '_tr_lock', 'transaction_id')


def _weight(label):
    """A preemption at a table / pool lock costs 2, at the mdib-level locks 1 (quick tier keeps the space small)."""
    return 1 if any(m in label for m in MAJOR) else 2


_ANCHORS = sched.LineAnchors(LINE_ANCHORS)


def _line_weight(label):
    """Statement pass: a preemption costs 1 everywhere; lock points that are not at the mdib-level locks are skipped as
    alternatives (they were explored by the lock-granularity pass) by giving them a cost above every bound."""
    if label.startswith('line:') or any(m in label for m in MAJOR):
        return 1
    return 99


def run_one(scenario, prefix, lines=False):
    r = Run(scenario, prefix, lines).go()
    return r


def _key(arg):
    return '+'.join(arg[0][0]) + ' || ' + '+'.join(arg[0][1]) + f' /bound={arg[1]}' + ('/lines' if len(arg) > 3 else '')


def _explore_scenario(acc, job):
    arg, start, expand_only = job
    scenario, bound, cap = arg[:3]
    lines = len(arg) > 3 and arg[3] == 'lines'
    _weight = _line_weight if lines else globals()['_weight']
    name = '+'.join(scenario[0]) + ' || ' + '+'.join(scenario[1]) + (' [statements]' if lines else '')
    outcomes = set()
    found = {}

    def one(prefix):
        r = run_one(scenario, prefix, lines)
        if lines:
            acc.add('statement-points', r.s.line_points)
        problems = r.judge()
        versions = tuple(sorted((n, res.mdib_version_group.mdib_version) for n, res in r.results.values()))
        obs = (versions, tuple(p[0] for p in problems))
        return r.s.trace, (obs, problems, r.s.choices(), r.s.lock_ops)

    def on_exec(prefix, trace, payload):
        obs, problems, choices, lock_ops = payload
        acc.transition(len(trace))
        acc.trace()
        acc.evals()
        acc.add('scheduling-points', len(trace))
        outcomes.add(obs)
        acc.state(h64((name, tuple(choices))))
        for kind, detail in problems:
            if kind not in found:
                found[kind] = (detail, choices, sched.preemptions(trace))

    if expand_only:
        n, kids = sched.explore(one, bound, on_execution=on_exec, weight=_weight, start=[[]], depth_limit=0)
        acc.emit((_key(arg), kids))
    else:
        n, capped = sched.explore(one, bound, max_executions=cap, on_execution=on_exec, weight=_weight, start=start)
        if capped:
            acc.cap(f'scenario[{name}]', f'a subtree was stopped after {n} schedules (bound {bound} not completed)')
    acc.add(f'schedules[{name}]', n)
    for o in outcomes:
        acc.nontrivial(h64((name, o)))
    for kind, (detail, choices, pre) in found.items():
        acc.violation(f'{kind}/{"+".join(scenario[1])}', {'scenario': name, 'detail': detail, 'schedule': choices,
                                                          'preemptions': pre, 'statement_points': lines},
                      case={'scenario': [list(scenario[0]), list(scenario[1])], 'schedule': choices, 'lines': lines})
    if len(acc.samples) < 3 and not expand_only:
        acc.sample({'scenario': name, 'schedules_in_this_subtree_group': n, 'outcomes': sorted(map(str, outcomes))[:4]})


def run(ctx):
    bound = 2 if ctx.quick else 3
    ctx.rule = ('scenarios: 1-2 request threads (GetMdib, GetMdDescription [all / one handle], GetMdState [all / some handles], '
                'GetContextStates [all / one descriptor]) sent by the real consumer clients and served by the real provider handlers '
                'in the requesting thread, against 1-2 writer threads (metric, location, patient, descriptor update/create/delete '
                'transactions); scheduling points = acquire/release of every lock created by the library (mdib lock, transaction '
                'lock, table locks, transaction-id lock, subscription table and client pool locks); all schedules with at most %d '
                'preemptions. distinct_nontrivial = distinct (scenario, observed response versions + verdict) outcomes' % bound)
    # caps are per subtree group (sched.run_partitioned)
    jobs = [(s, bound, 4000 if ctx.quick else 2500) for s in SCENARIOS]
    jobs += [(s, 1 if ctx.quick else 2, 3000 if ctx.quick else 2500) for s in SCENARIOS_2]
    jobs += [(s, 1 if ctx.quick else 2, 4000 if ctx.quick else 2500, 'lines') for s in LINE_SCENARIOS]
    sched.run_partitioned(ctx, _explore_scenario, ctx.rotate(jobs), _key, group=8)
    _determinism_selfcheck(ctx)
    ctx.assumptions.append('races between statements that are not separated by a lock operation are outside the granularity '
                           'stated by the property (there is no data-race detector for Python in this image)')
    ctx.assumptions.append('sync subscription manager, no subscriber; one fresh provider+consumer per schedule')


def _determinism_selfcheck(ctx):
    """Replay one schedule twice and require identical observations."""
    from mcx.runner import HarnessError
    sc = SCENARIOS[1]
    r1 = run_one(sc, [])
    ch = r1.s.choices()
    # a schedule with one preemption in the middle
    alt = None
    for i, (c, order, cur, label, cur_enabled) in enumerate(r1.s.trace):
        if len(order) > 1 and i > len(r1.s.trace) // 2:
            alt = ch[:i] + [1]
            break
    if alt is None:
        return
    a = run_one(sc, alt)
    b = run_one(sc, alt)
    oa = (a.s.choices(), [p[0] for p in a.judge()], sorted((n, r.mdib_version_group.mdib_version) for n, r in a.results.values()))
    ob = (b.s.choices(), [p[0] for p in b.judge()], sorted((n, r.mdib_version_group.mdib_version) for n, r in b.results.values()))
    if oa != ob:
        raise HarnessError(f'schedule replay is not deterministic: {oa} != {ob}')
    ctx.note('replay_selfcheck', 'one schedule replayed twice with identical trace and observations')


def replay(ctx, case):
    sc = (case['scenario'][0], case['scenario'][1])
    r = run_one(sc, case['schedule'], bool(case.get('lines')))
    problems = r.judge()
    for kind, detail in problems:
        ctx.violation(f'{kind}/{"+".join(sc[1])}', detail)
    return {'problems': [p[0] for p in problems], 'choices': r.s.choices()}
