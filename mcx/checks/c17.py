"""C17 - HTTP body framing and content coding are lossless and honour negotiation (bounded-exhaustive enumeration)."""
from __future__ import annotations

import http.client
import io
import itertools

PROPERTY = 'C17'
TECHNIQUE = ('exhaustive enumeration of small byte strings x chunk sizes x codings against Python\'s http.client as an '
             'independent framing oracle, single-byte corruption at every offset, and the full product of Accept-Encoding '
             'header shapes through the real request handler / SOAP client header logic against an RFC 7231 reference')

ALPHA = [b'\x00', b'a', b'\r', b'\n']


class SpinDetected(Exception):
    pass


class CountingStream(io.BytesIO):
    """Waiting made visible: a reader that keeps calling read() on an exhausted stream is spinning."""

    def __init__(self, data):
        super().__init__(data)
        self.reads = 0
        self.limit = 10 * len(data) + 100

    def read(self, n=-1):
        self.reads += 1
        if self.reads > self.limit:
            raise SpinDetected(f'{self.reads} reads on a {len(self.getvalue())} byte stream')
        return super().read(n)


class FakeSock:
    def __init__(self, data):
        self.data = data

    def makefile(self, mode='rb', *a, **k):  # noqa: ARG002
        return io.BytesIO(self.data)


def small_bodies(maxlen):
    out = [b'']
    for n in range(1, maxlen + 1):
        for t in itertools.product(ALPHA, repeat=n):
            out.append(b''.join(t))
    return out


def big_bodies(quick):
    pat = bytes(range(256)) * 4
    sizes = [511, 512, 513, 4096, 65535, 65536] + ([] if quick else [1 << 20, 5 * (1 << 20)])
    return [(pat * (n // len(pat) + 1))[:n] for n in sizes] + [b'\r\n0\r\n\r\n' * 100, b'5\r\nhello\r\n' * 50]


class Msg:
    def __init__(self, headers, body):
        self.headers = http.client.HTTPMessage()
        for k, v in headers.items():
            self.headers[k] = v
        self.rfile = CountingStream(body)


def _resp(raw):
    r = http.client.HTTPResponse(FakeSock(raw))
    r.begin()
    return r


def _framing_chunk(acc, bodies):
    from sdc11073.httpserver.httpreader import HTTPReader, mk_chunks
    for b in bodies:
        sizes = list(range(1, len(b) + 3)) if len(b) <= 8 else [1, 2, 7, 511, 512, 513, len(b) - 1, len(b), len(b) + 1, 65536]
        if len(b) > 70000:
            sizes = [4096, 65536, len(b)]
        for n in sizes:
            if n < 1:
                continue
            acc.add('states')
            acc.transition(3)
            acc.evals()
            acc.trace()
            chunked = mk_chunks(b, n)
            key = f'len={len(b) if len(b) > 8 else b!r}/chunk={n}'
            try:
                got = HTTPReader._read_dechunk(CountingStream(chunked))
            except Exception as ex:  # noqa: BLE001
                acc.violation(f'framing/dechunk-raises/{key}', {'body': b[:40], 'chunk_size': n, 'error': repr(ex)},
                              case={'kind': 'framing', 'body': b.hex() if len(b) < 64 else len(b), 'chunk': n})
                continue
            if got != b:
                acc.violation(f'framing/dechunk-differs/{key}', {'body': b[:40], 'chunk_size': n, 'got': got[:40]},
                              case={'kind': 'framing', 'body': b.hex() if len(b) < 64 else len(b), 'chunk': n})
            # independent validity oracle: Python's own HTTP client must parse the produced framing
            raw = b'HTTP/1.1 200 OK\r\nTransfer-Encoding: chunked\r\nContent-Type: text/xml\r\n\r\n' + chunked
            try:
                ref = _resp(raw).read()
            except Exception as ex:  # noqa: BLE001
                ref = repr(ex)
            if ref != b:
                acc.violation(f'framing/not-valid-http-chunking/{key}', {'body': b[:40], 'chunk_size': n, 'http.client': str(ref)[:80]},
                              case={'kind': 'framing', 'body': b.hex() if len(b) < 64 else len(b), 'chunk': n})
            try:
                lib = HTTPReader.read_response_body(_resp(raw))
            except Exception as ex:  # noqa: BLE001
                lib = repr(ex)
            if lib != b:
                acc.violation(f'framing/read_response_body-differs/{key}', {'body': b[:40], 'chunk_size': n, 'got': str(lib)[:80]},
                              case={'kind': 'framing', 'body': b.hex() if len(b) < 64 else len(b), 'chunk': n})
            # request path with chunked transfer encoding
            try:
                req = HTTPReader.read_request_body(Msg({'Transfer-Encoding': 'chunked'}, chunked))
            except Exception as ex:  # noqa: BLE001
                req = repr(ex)
            if req != b:
                acc.violation(f'framing/read_request_body-differs/{key}', {'body': b[:40], 'chunk_size': n, 'got': str(req)[:80]},
                              case={'kind': 'framing', 'body': b.hex() if len(b) < 64 else len(b), 'chunk': n})


def _coding_chunk(acc, bodies):
    from sdc11073.httpserver.compression import CompressionHandler
    from sdc11073.httpserver.httpreader import HTTPReader, mk_chunks
    for b in bodies:
        for alg in list(CompressionHandler.available_encodings):
            acc.add('states')
            acc.transition(4)
            acc.evals()
            acc.trace()
            key = f'{alg}/len={len(b) if len(b) > 8 else b!r}'
            comp = CompressionHandler.compress_payload(alg, b)
            for chunked in (False, True):
                try:
                    if chunked:
                        got = HTTPReader.read_request_body(Msg({'Transfer-Encoding': 'chunked', 'Content-Encoding': alg},
                                                               mk_chunks(comp, 7)))
                    else:
                        got = HTTPReader.read_request_body(Msg({'Content-Length': str(len(comp)), 'Content-Encoding': alg}, comp))
                except Exception as ex:  # noqa: BLE001
                    got = repr(ex)
                if got != b:
                    acc.violation(f'coding/request-path-differs/{key}/chunked={chunked}', {'got': str(got)[:80]},
                                  case={'kind': 'coding', 'alg': alg, 'body': b.hex() if len(b) < 64 else len(b)})
                head = (b'HTTP/1.1 200 OK\r\nContent-Encoding: ' + alg.encode() + b'\r\n')
                raw = head + (b'Transfer-Encoding: chunked\r\n\r\n' + mk_chunks(comp, 5) if chunked
                              else b'Content-Length: ' + str(len(comp)).encode() + b'\r\n\r\n' + comp)
                try:
                    got = HTTPReader.read_response_body(_resp(raw))
                except Exception as ex:  # noqa: BLE001
                    got = repr(ex)
                if got != b:
                    acc.violation(f'coding/response-path-differs/{key}/chunked={chunked}', {'got': str(got)[:80]},
                                  case={'kind': 'coding', 'alg': alg, 'body': b.hex() if len(b) < 64 else len(b)})


def _reference_decode(alg, data):
    """Independent decoders: the stdlib gzip module (multi-member aware, rejects trailing garbage) for gzip; for lz4 a
    frame-by-frame loop that requires every byte to belong to a frame. None = the reference rejects the data."""
    if alg == 'gzip':
        import gzip
        try:
            return gzip.decompress(data)
        except Exception:  # noqa: BLE001
            return None
    import lz4.frame
    out = []
    try:
        while data:
            chunk, n = lz4.frame.decompress(data, return_bytes_read=True)
            out.append(chunk)
            data = data[n:]
    except Exception:  # noqa: BLE001
        return None
    return b''.join(out)


def _corruption(ctx):
    from sdc11073.httpserver.compression import CompressionHandler
    from sdc11073.httpserver.httpreader import DecompressError, HTTPReader
    body = b'<a>hello hello hello</a>\r\n' * 3
    for alg in list(CompressionHandler.available_encodings):
        comp = CompressionHandler.compress_payload(alg, body)
        accepted_differently = []
        for off in range(len(comp)):
            for val in (0x00, 0xff, comp[off] ^ 0x01):
                if val == comp[off]:
                    continue
                bad = comp[:off] + bytes([val]) + comp[off + 1:]
                ctx.add('states')
                ctx.transition()
                ctx.evals()
                ctx.trace()
                try:
                    got = HTTPReader.read_request_body(Msg({'Content-Length': str(len(bad)), 'Content-Encoding': alg}, bad))
                except Exception:  # noqa: BLE001
                    ctx.outcome(f'corrupt-{alg}:rejected')
                    continue
                if got == body:
                    ctx.outcome(f'corrupt-{alg}:identical-output')
                else:
                    ctx.outcome(f'corrupt-{alg}:misinterpreted')
                    accepted_differently.append(off)
        if accepted_differently:
            ctx.violation(f'coding/corrupt-{alg}-misinterpreted', {'offsets': accepted_differently[:20],
                                                                   'count': len(accepted_differently), 'of': len(comp)},
                          case={'kind': 'corrupt', 'alg': alg})
        # truncation at every offset
        for cut in range(len(comp)):
            bad = comp[:cut]
            ctx.add('states')
            ctx.transition()
            ctx.evals()
            try:
                got = HTTPReader.read_request_body(Msg({'Content-Length': str(len(bad)), 'Content-Encoding': alg}, bad))
            except Exception:  # noqa: BLE001
                ctx.outcome(f'truncated-{alg}:rejected')
                continue
            if got != body:
                ctx.violation(f'coding/truncated-{alg}-accepted/cut={cut}', {'got': got[:40]}, case={'kind': 'corrupt', 'alg': alg})
    # bytes after the end of the compressed stream: a second member / frame (legal for gzip and lz4: the reference decoders
    # give the concatenation), zero padding, or junk (not a coding at all): the result must be what the reference decoder
    # gives, or a rejection - never silently the first part only
    for alg in list(CompressionHandler.available_encodings):
        for bname, b1 in (('text', body), ('empty', b''), ('one', b'x')):
            comp = CompressionHandler.compress_payload(alg, b1)
            other = CompressionHandler.compress_payload(alg, b'<second/>')
            tails = {'second-member': other, 'same-member-again': comp, 'junk': b'JUNKJUNK', 'one-byte': b'\x01',
                     'zero-padding': b'\x00' * 4, 'truncated-second-member': other[:len(other) // 2], 'crlf': b'\r\n'}
            for tname, tail in tails.items():
                data = comp + tail
                ctx.add('states')
                ctx.transition()
                ctx.evals()
                ctx.trace()
                ref = _reference_decode(alg, data)
                try:
                    got = HTTPReader.read_request_body(Msg({'Content-Length': str(len(data)), 'Content-Encoding': alg}, data))
                except Exception:  # noqa: BLE001
                    ctx.outcome(f'trailing-{alg}:rejected')
                    continue
                if ref is not None and got == ref:
                    ctx.outcome(f'trailing-{alg}:as-reference-decoder')
                    continue
                ctx.outcome(f'trailing-{alg}:misinterpreted')
                ctx.violation(f'coding/trailing-data-{alg}-misinterpreted/{tname}/{bname}',
                              {'accepted_as': got[:60], 'reference_decoder': 'rejects' if ref is None else ref[:60]},
                              case={'kind': 'corrupt', 'alg': alg})
    for alg in ('br', 'deflate', 'compress', 'GZIP ', 'zstd', 'identity;q=1'):
        ctx.add('states')
        ctx.transition()
        ctx.evals()
        try:
            got = HTTPReader.read_request_body(Msg({'Content-Length': '3', 'Content-Encoding': alg}, b'abc'))
        except DecompressError:
            ctx.outcome('unknown-coding:rejected')
            continue
        except Exception as ex:  # noqa: BLE001
            ctx.outcome(f'unknown-coding:rejected-with-{type(ex).__name__}')
            continue
        ctx.violation(f'coding/unsupported-coding-accepted/{alg}', {'got': got}, case={'kind': 'corrupt', 'alg': alg})


# ------------------------------------------------------------------ configuration histories (provider level)
def _config_histories(ctx):
    """The locally enabled codings are an application setting that may change at run time
    (SdcProvider.set_used_compression). Histories: configure, start the provider with its own HTTP server, let a
    notification client exist, re-configure (every ordered pair of settings): after the last call the HTTP server (responses
    to requests) and the notification clients (requests to subscribers) must only use what is enabled now."""
    import threading
    import sdc11073.provider.providerimpl as pimpl
    from mcx import world
    from sdc11073.httpserver.compression import CompressionHandler
    from sdc11073.pysoap.soapclient import SoapClient
    all_enc = list(CompressionHandler.available_encodings)
    settings = [(), ('gzip',), tuple(e for e in all_enc if 'lz4' in e), tuple(all_enc)]
    captured = []

    class RecServer:
        """Stands in for the provider's own HttpServerThreadBase: keeps what the provider hands over."""

        def __init__(self, my_ipaddress, ssl_context, supported_encodings, logger, chunk_size=0, **_kw):  # noqa: ARG002
            self.supported_encodings = supported_encodings
            self.started_evt = threading.Event()
            self.started_evt.set()
            self._fake = world.FakeHttpServer(cur_world[0].wire, my_ipaddress, 8000)
            self.dispatcher = self._fake.dispatcher
            self.server_port = 8000
            self.base_url = self._fake.base_url
            captured.append(self)

        def start(self):
            pass

        def stop(self, *a, **k):
            pass

    cur_world = [None]
    saved = pimpl.HttpServerThreadBase
    pimpl.HttpServerThreadBase = RecServer
    try:
        world.install()
        for first in settings:
            for second in settings:
                for when in ('before-start', 'after-start'):
                    ctx.add('states')
                    ctx.transition(3)
                    ctx.evals()
                    ctx.trace()
                    del captured[:]
                    w = world.World()
                    cur_world[0] = w
                    try:
                        p = w.mk_provider(shared_server=False, start=False, roles=False)
                        p.set_used_compression(*first)
                        if when == 'before-start':
                            p.set_used_compression(*second)
                        p.start_all(start_rtsample_loop=False)
                        # a notification client as the subscription managers create it (real SoapClient, never connected)
                        real_cls, p._components.soap_client_class = p._components.soap_client_class, SoapClient
                        client = p._mk_soap_client('10.9.9.9:80', all_enc)
                        p._components.soap_client_class = real_cls
                        if when == 'after-start':
                            p.set_used_compression(*second)
                        enabled = list(second)
                        name = f'{"+".join(first) or "none"}>{"+".join(second) or "none"}/{when}'
                        srv = captured[0] if captured else None
                        if srv is None:
                            ctx.violation('config/no-own-http-server-created', {'case': name}, case={'kind': 'config'})
                            continue
                        for header in ('gzip', 'lz4', 'x-lz4, gzip;q=0.5', '*'):
                            chosen, _ = _server_choice(header, srv.supported_encodings)
                            ctx.outcome(f'config-server:coding={chosen}')
                            if chosen is not None and chosen not in enabled:
                                ctx.violation(f'config/server-response/not-enabled-locally/{name}',
                                              {'accept_encoding': header, 'chosen': chosen, 'enabled_now': enabled},
                                              case={'kind': 'config'})
                                break
                        sent = {}

                        class Conn:
                            sock = object()

                            def request(self, method, path, body=None, headers=None):  # noqa: ARG002
                                sent['headers'] = dict(headers)

                            def getresponse(self):
                                return _resp(b'HTTP/1.1 200 OK\r\nContent-Length: 0\r\n\r\n')

                            def close(self):
                                pass
                        client._http_connection = Conn()
                        client._send_soap_request('/x', b'<n>' + b'y' * 64 + b'</n>', 'verif')
                        chosen = sent['headers'].get('Content-Encoding')
                        ctx.outcome(f'config-client:coding={chosen}')
                        if chosen is not None and chosen not in enabled:
                            ctx.violation(f'config/notification-request/not-enabled-locally/{name}',
                                          {'chosen': chosen, 'enabled_now': enabled}, case={'kind': 'config'})
                    finally:
                        w.close()
    finally:
        pimpl.HttpServerThreadBase = saved


def _subscribe_negotiation(ctx):
    """The coding of notifications is negotiated by the Accept-Encoding header of the Subscribe request: for the sync and
    the async subscription manager, a Subscribe with each header is sent to the real provider; the notification client the
    provider then creates for that subscriber is asked (real SoapClient request logic, same arguments) which coding it uses."""
    import types
    from mcx import world
    from mcx.checks import c08
    from sdc11073.httpserver.compression import CompressionHandler
    from sdc11073.pysoap.soapclient import SoapClient
    from sdc11073 import loghelper
    world.install()
    all_enc = list(CompressionHandler.available_encodings)
    headers = [None, 'gzip', 'gzip;q=0', 'gzip;q=0, x-lz4;q=0.5', 'gzip;q=0,x-lz4;q=0,*;q=0', 'identity', '*;q=0', 'x-lz4, gzip;q=0.0',
               'gzip ; q=0', 'br, gzip;q=0.1']
    for mgr_name in ('path-sync', 'path-async', 'ref-async'):
        for header in headers:
            ctx.add('states')
            ctx.transition(2)
            ctx.evals()
            ctx.trace()
            sim = c08.Sim(mgr_name)
            try:
                sim.p.set_used_compression(*all_enc)
                sub = sim._mk_subscription('A')
                client = sim._soap_client(sim.hosted_address)
                orig = client._headers

                def hdrs(orig=orig, header=header):
                    h = orig()
                    del h['Accept-Encoding']
                    if header is not None:
                        h['Accept-Encoding'] = header
                    return h
                client._headers = hdrs
                n_clients = len(sim.w.wire.clients)
                try:
                    sub.subscribe(10)
                except Exception as ex:  # noqa: BLE001
                    ctx.outcome(f'subscribe-negotiation:{mgr_name}:subscribe-raised-{type(ex).__name__}')
                    continue
                if not sub.is_subscribed:
                    ctx.outcome(f'subscribe-negotiation:{mgr_name}:not-accepted')
                    continue
                from mcx import alphabet as A
                A.apply(sim.p, 'metric(N1,1)')
                cfg = c08.SUBSCRIBERS['A']
                made = [c for c in sim.w.wire.clients[n_clients:] if c.netloc == f'{cfg["ip"]}:{cfg["port"]}']
                if not made:
                    ctx.outcome(f'subscribe-negotiation:{mgr_name}:no-notification-client')
                    continue
                lc = made[0]
                real = SoapClient(lc.netloc, 1, loghelper.get_logger_adapter('verif.c17'), None, None, None,
                                  supported_encodings=lc.supported_encodings, request_encodings=lc.request_encodings)
                sent = {}

                class Conn:
                    sock = object()

                    def request(self, method, path, body=None, headers=None):  # noqa: ARG002
                        sent['headers'] = dict(headers)

                    def getresponse(self):
                        return _resp(b'HTTP/1.1 200 OK\r\nContent-Length: 0\r\n\r\n')

                    def close(self):
                        pass
                real._http_connection = Conn()
                real._send_soap_request('/x', b'<n>' + b'y' * 64 + b'</n>', 'verif')
                chosen = sent['headers'].get('Content-Encoding')
                ctx.outcome(f'subscribe-negotiation:{mgr_name}:coding={chosen}')
                if chosen is not None:
                    members = [m.strip() for m in (header or '').split(',') if m.strip()]
                    parsed = []
                    for m in members:
                        tok, _, q = m.partition(';')
                        parsed.append((tok.strip(), _qval(q.strip()) if q.strip() else 1.0))
                    if not acceptable(parsed, chosen):
                        ctx.violation(f'negotiation/notification-after-subscribe/not-acceptable-to-peer/{mgr_name}/{header}',
                                      {'accept_encoding_of_subscribe': header, 'chosen': chosen}, case={'kind': 'subscribe-negotiation'})
            finally:
                sim.w.close()


# ------------------------------------------------------------------ negotiation
TOKENS = ['gzip', 'lz4', 'x-lz4', 'identity', '*', 'br']
QS = ['', ';q=1', ';q=0.5', ';q=0', ';q=0.0', ';q=0.000', '; q=0', ';q = 0', ' ; q =0 ', ';Q=0', '; q = 0.5']
SHAPES = [',', ', ', ' , ']


def acceptable(header_members, coding):
    """RFC 7231 5.3.4 reference: is `coding` acceptable with q > 0?"""
    explicit = None
    star = None
    for name, q in header_members:
        n = name.strip().lower()
        if n == coding.lower():
            explicit = q if explicit is None else max(explicit, q)
        elif n == '*':
            star = q if star is None else max(star, q)
    if explicit is not None:
        return explicit > 0
    if star is not None:
        return star > 0
    return False


def _qval(q):
    if not q or '=' not in q:
        return 1.0
    return float(q.split('=')[1].strip())


class _Server:
    def __init__(self, supported):
        from mcx.world import _Registry
        self.dispatcher = _Registry()
        self.dispatcher.register_instance('dev', self)
        self.supported_encodings = supported
        self.chunk_size = 0
        import logging
        self.logger = logging.getLogger('verif.c17')

    def do_post(self, headers, path, peer, data):  # noqa: ARG002
        return 200, 'Ok', b'<r>' + b'x' * 64 + b'</r>'


class _ReqSock:
    def __init__(self, raw):
        self.raw = raw
        self.out = io.BytesIO()

    def makefile(self, mode='rb', *a, **k):  # noqa: ARG002
        if 'r' in mode:
            return io.BytesIO(self.raw)
        return _Writer(self.out)

    def getpeername(self):
        return ('10.0.0.9', 1234)

    def sendall(self, data):
        self.out.write(data)

    def settimeout(self, t):
        pass

    def setsockopt(self, *a):
        pass


class _Writer:
    def __init__(self, out):
        self.out = out

    def write(self, data):
        self.out.write(data)
        return len(data)

    def flush(self):
        pass

    def close(self):
        pass


def _server_choice(accept_header, supported):
    from sdc11073.httpserver.httprequesthandler import DispatchingRequestHandler
    body = b'<a/>'
    raw = (b'POST /dev/x HTTP/1.1\r\nHost: h\r\nContent-Length: ' + str(len(body)).encode() + b'\r\n'
           + (b'Accept-Encoding: ' + accept_header.encode() + b'\r\n' if accept_header is not None else b'')
           + b'Connection: close\r\n\r\n' + body)
    sock = _ReqSock(raw)
    DispatchingRequestHandler(sock, ('10.0.0.9', 1234), _Server(supported))
    resp = _resp(sock.out.getvalue())
    return resp.getheader('Content-Encoding'), resp


def _client_choice(accept_header, supported):
    """Provider side: the coding used for notifications to a subscriber that sent this Accept-Encoding."""
    from sdc11073.httpserver.compression import CompressionHandler
    from sdc11073.pysoap.soapclient import SoapClient
    import logging
    from sdc11073 import loghelper
    accepted = CompressionHandler.parse_header(accept_header)
    client = SoapClient('h:1', 1, loghelper.get_logger_adapter('verif.c17'), None, None, None,
                        supported_encodings=supported, request_encodings=accepted)
    sent = {}

    class Conn:
        sock = object()

        def request(self, method, path, body=None, headers=None):
            sent['headers'] = dict(headers)
            sent['body'] = body

        def getresponse(self):
            return _resp(b'HTTP/1.1 200 OK\r\nContent-Length: 0\r\n\r\n')

        def close(self):
            pass
    client._http_connection = Conn()
    client._send_soap_request('/x', b'<n>' + b'y' * 64 + b'</n>', 'verif')
    return sent['headers'].get('Content-Encoding'), sent


def _negotiation_chunk(acc, headers):
    from sdc11073.httpserver.compression import CompressionHandler
    all_enc = list(CompressionHandler.available_encodings)
    local_sets = [[], ['gzip'], [e for e in all_enc if 'lz4' in e], all_enc]
    for members, shape in headers:
        header = shape.join(t + q for t, q in members)
        parsed = [(t, _qval(q)) for t, q in members]
        for supported in local_sets:
            for side, fn in (('server-response', _server_choice), ('client-request', _client_choice)):
                acc.add('states')
                acc.transition()
                acc.evals()
                acc.trace()
                try:
                    chosen, extra = fn(header, supported)
                except Exception as ex:  # noqa: BLE001
                    acc.violation(f'negotiation/{side}/raises/{type(ex).__name__}', {'header': header, 'error': repr(ex)[:200]},
                                  case={'kind': 'negotiation', 'header': header, 'supported': supported, 'side': side})
                    continue
                acc.outcome(f'{side}:coding={chosen}')
                if chosen is None:
                    continue
                ok_local = chosen in supported
                ok_peer = acceptable(parsed, chosen)
                if not (ok_local and ok_peer):
                    why = 'not-enabled-locally' if not ok_local else 'not-acceptable-to-peer'
                    acc.violation(f'negotiation/{side}/{why}/{_header_class(parsed, chosen)}',
                                  {'header': header, 'chosen': chosen, 'enabled_locally': supported},
                                  case={'kind': 'negotiation', 'header': header, 'supported': supported, 'side': side})
                    continue
                # the body really is in the announced coding
                try:
                    if side == 'server-response':
                        raw = extra.read()
                    else:
                        raw = extra['body']
                    plain = CompressionHandler.decompress_payload(chosen, raw)
                    if not plain.startswith(b'<'):
                        raise ValueError('payload is not the original')
                except Exception as ex:  # noqa: BLE001
                    acc.violation(f'negotiation/{side}/body-not-in-announced-coding/{chosen}', {'header': header, 'error': repr(ex)[:100]},
                                  case={'kind': 'negotiation', 'header': header, 'supported': supported, 'side': side})


def _keepalive_chunk(acc, pairs):
    """Two (or three) requests on one keep-alive connection with different Accept-Encoding headers: every response is
    negotiated with the header of its own request."""
    from sdc11073.httpserver.compression import CompressionHandler
    from sdc11073.httpserver.httprequesthandler import DispatchingRequestHandler
    all_enc = list(CompressionHandler.available_encodings)
    body = b'<a/>'
    for headers in pairs:
        for supported in (['gzip'], all_enc):
            for chunk_size in (0, 7):
                raw = b''
                for h in headers:
                    raw += (b'POST /dev/x HTTP/1.1\r\nHost: h\r\nContent-Length: ' + str(len(body)).encode() + b'\r\n'
                            + (b'Accept-Encoding: ' + h.encode() + b'\r\n' if h is not None else b'') + b'\r\n' + body)
                acc.add('states')
                acc.transition(len(headers))
                acc.evals()
                acc.trace()
                sock = _ReqSock(raw)
                server = _Server(supported)
                server.chunk_size = chunk_size
                try:
                    DispatchingRequestHandler(sock, ('10.0.0.9', 1234), server)
                except Exception as ex:  # noqa: BLE001
                    acc.violation(f'negotiation/keep-alive/raises/{type(ex).__name__}', {'headers': headers, 'error': repr(ex)[:200]},
                                  case={'kind': 'keepalive', 'headers': list(headers), 'supported': supported})
                    continue
                out = sock.out.getvalue()
                pos = 0
                for i, h in enumerate(headers):
                    class _NoClose(io.BytesIO):
                        def close(self):
                            pass

                    class _S:
                        def __init__(self, data):
                            self.f = _NoClose(data)

                        def makefile(self, *a, **k):  # noqa: ARG002
                            return self.f
                    sk = _S(out[pos:])
                    import http.client
                    resp = http.client.HTTPResponse(sk)
                    try:
                        resp.begin()
                        payload = resp.read()
                    except Exception as ex:  # noqa: BLE001
                        acc.violation('negotiation/keep-alive/response-unreadable', {'headers': headers, 'index': i, 'error': repr(ex)[:100]},
                                      case={'kind': 'keepalive', 'headers': list(headers), 'supported': supported})
                        break
                    pos += sk.f.tell()
                    chosen = resp.getheader('Content-Encoding')
                    acc.outcome(f'keep-alive:request{i}:coding={chosen}')
                    if chosen is None:
                        continue
                    parsed = [] if h is None else [(m.split(';')[0], _qval(';' + m.split(';', 1)[1]) if ';' in m else 1.0)
                                                   for m in h.split(',')]
                    if chosen not in supported or not acceptable(parsed, chosen):
                        acc.violation(f'negotiation/keep-alive/request{i}-answered-with-coding-of-another-request/{chosen}',
                                      {'headers': headers, 'index': i, 'chosen': chosen, 'enabled_locally': supported},
                                      case={'kind': 'keepalive', 'headers': list(headers), 'supported': supported})
                        break
                    try:
                        if not CompressionHandler.decompress_payload(chosen, payload).startswith(b'<'):
                            raise ValueError('payload is not the original')
                    except Exception as ex:  # noqa: BLE001
                        acc.violation(f'negotiation/keep-alive/body-not-in-announced-coding/{chosen}', {'headers': headers, 'error': repr(ex)[:100]},
                                      case={'kind': 'keepalive', 'headers': list(headers), 'supported': supported})
                        break


def keepalive_headers(quick):
    hs = [None, 'gzip', 'gzip;q=0', 'identity', 'x-lz4', '*', 'gzip;q=0, *', 'deflate, gzip;q=0.5']
    out = [tuple(p) for p in itertools.product(hs, repeat=2)]
    if not quick:
        out += [tuple(p) for p in itertools.product(hs[:5], repeat=3)]
    return out


def _header_class(parsed, chosen):
    qs = sorted({q for t, q in parsed if t.strip().lower() == chosen})
    star = sorted({q for t, q in parsed if t.strip() == '*'})
    return f'{chosen}:q={qs}:star={star}'


def negotiation_headers(quick):
    forms = [(t, q) for t in TOKENS for q in QS]
    out = []
    for n in (1, 2):
        for members in itertools.product(forms, repeat=n):
            for shape in (SHAPES if n > 1 else SHAPES[:1]):
                out.append((members, shape))
    small = [(t, q) for t in (['gzip', 'lz4', '*'] if quick else TOKENS[:5]) for q in (['', ';q=0'] if quick else ['', ';q=0.5', ';q=0'])]
    for members in itertools.product(small, repeat=3):
        out.append((members, ', '))
    return out


def run(ctx):
    maxlen = 4 if ctx.quick else 5
    bodies = small_bodies(maxlen)
    bigs = big_bodies(ctx.quick)
    ctx.rule = ('framing: all byte strings of length <= %d over {00, a, CR, LF} (%d) x every chunk size 1..len+2, plus large bodies x '
                'boundary chunk sizes, decoded by the library and by http.client.HTTPResponse; codings: every registered coding x '
                'bodies on request and response paths (content-length and chunked); corruption: every single-byte substitution '
                '(3 values) and every truncation of a compressed body; negotiation: all Accept-Encoding headers with 1-2 members '
                'over 6 tokens x 6 q-forms x 3 separators (+3 members over a reduced set) x 4 locally enabled sets, through the real '
                'DispatchingRequestHandler and SoapClient._send_soap_request, against an RFC 7231 reference'
                % (maxlen, len(bodies)))
    n = max(1, len(bodies) // 48)
    ctx.pmap(_framing_chunk, [bodies[i:i + n] for i in range(0, len(bodies), n)] + [[b] for b in bigs], chunksize=1)
    cod = small_bodies(3) + bigs
    n = max(1, len(cod) // 32)
    ctx.pmap(_coding_chunk, [cod[i:i + n] for i in range(0, len(cod), n)], chunksize=1)
    _corruption(ctx)
    _config_histories(ctx)
    _subscribe_negotiation(ctx)
    heads = negotiation_headers(ctx.quick)
    heads.append(((('gzip', ''),), ','))
    n = max(1, len(heads) // 64)
    ctx.pmap(_negotiation_chunk, [heads[i:i + n] for i in range(0, len(heads), n)], chunksize=1)
    ka = keepalive_headers(ctx.quick)
    ctx.note('keep_alive_header_sequences', len(ka))
    ctx.pmap(_keepalive_chunk, [ka[i:i + 8] for i in range(0, len(ka), 8)], chunksize=1)
    # header absent / empty
    for supported in ([], ['gzip']):
        for header in (None, ''):
            chosen, _ = _server_choice(header, supported)
            ctx.transition()
            if chosen is not None:
                ctx.violation('negotiation/server-response/coding-without-accept-encoding', {'chosen': chosen},
                              case={'kind': 'negotiation', 'header': header, 'supported': supported, 'side': 'server-response'})
    ctx.distinct = set(range(ctx.counts.get('states', 0)))
    ctx.note('bounds', {'small_bodies': len(bodies), 'large_bodies': len(bigs), 'accept_encoding_headers': len(heads)})
    ctx.sample({'body': 'a\\r\\n\\x00', 'chunk_size': 2})
    ctx.sample({'accept_encoding': 'gzip;q=0, *;q=0.5', 'enabled_locally': ['gzip']})
    ctx.assumptions.append('sockets are in-memory; http.client.HTTPResponse is trusted as the HTTP/1.1 chunked-framing oracle')


def _replay_keepalive(ctx, case):
    _keepalive_chunk(ctx, [tuple(case['headers'])])
    return {'headers': case['headers']}


def replay(ctx, case):
    if case.get('kind') == 'keepalive':
        return _replay_keepalive(ctx, case)
    kind = case['kind']
    if kind == 'framing':
        body = bytes.fromhex(case['body']) if isinstance(case['body'], str) else (bytes(range(256)) * 30000)[:case['body']]
        _framing_chunk(ctx, [body])
    elif kind == 'coding':
        body = bytes.fromhex(case['body']) if isinstance(case['body'], str) else (bytes(range(256)) * 30000)[:case['body']]
        _coding_chunk(ctx, [body])
    elif kind == 'subscribe-negotiation':
        _subscribe_negotiation(ctx)
    elif kind == 'config':
        _config_histories(ctx)
    elif kind == 'corrupt':
        _corruption(ctx)
    else:
        header = case['header']
        side = case['side']
        fn = _server_choice if side == 'server-response' else _client_choice
        chosen, _ = fn(header, case['supported'])
        members = []
        for m in (header or '').split(','):
            if not m.strip():
                continue
            t, _, q = m.partition(';')
            members.append((t.strip(), _qval(q.strip() and ';' + q.strip())))
        if chosen is not None and not (chosen in case['supported'] and acceptable(members, chosen)):
            ctx.violation(f'negotiation/{side}/{header}', {'chosen': chosen})
        return {'chosen': chosen}
    return {'violations': sorted(ctx.violations)}
