"""C18 - scalar XML value conversions are exact over the wire value space (bounded-exhaustive enumeration)."""
from __future__ import annotations

import datetime
import re
from decimal import Decimal

PROPERTY = 'C18'
TECHNIQUE = ('bounded-exhaustive enumeration of lexical and Python values (dense integer windows, full '
             'coefficient x exponent products, grammar products) against exact arithmetic oracles')

SDPI_DURATION = re.compile(r'^PT(\d+H)?(\d+M)?(\d+(\.\d+)?S)?(?<!PT)$')
XSD_DECIMAL = re.compile(r'^[+-]?(\d+(\.\d*)?|\.\d+)$')
MAX_TS = (1 << 53) // 1000


# ------------------------------------------------------------------ timestamps
def _ts_range(acc, rng):
    from sdc11073.xml_types.dataconverters import TimestampConverter as T
    lo, hi = rng
    bad_x = bad_p = 0
    for k in range(lo, hi):
        s = str(k)
        py = T.to_py(s)
        back = T.to_xml(py)
        if back != s:
            bad_x += 1
            if bad_x <= 3:
                acc.violation(f'timestamp/xml-py-xml/{s}', {'xml': s, 'py': repr(py), 'back': back},
                              case={'kind': 'timestamp', 'xml': s})
        # python -> xml -> python on the float grid around k ms
        f = k / 1000
        for cand in (f, _nextafter(f, 1e300), _nextafter(f, -1.0)):
            if cand < 0:
                continue
            again = T.to_py(T.to_xml(cand))
            if abs(again - cand) >= 0.001:
                bad_p += 1
                if bad_p <= 3:
                    acc.violation(f'timestamp/py-xml-py/{cand!r}', {'py': repr(cand), 'again': repr(again)},
                                  case={'kind': 'timestamp_py', 'py': repr(cand)})
    n = hi - lo
    acc.add('states', n)
    acc.transition(4 * n)
    acc.trace(n)
    acc.evals(4 * n)
    acc.add('timestamps', n)
    if bad_x:
        acc.add('bad:timestamp-xml-roundtrip', bad_x)
    if bad_p:
        acc.add('bad:timestamp-py-roundtrip', bad_p)


def _nextafter(x, toward):
    import math
    return math.nextafter(x, toward)


# ------------------------------------------------------------------ decimals
def _coefficients(quick):
    coeffs = set(range(0, 1000 if quick else 10000))
    for k in range(0, 19):
        coeffs.add(10 ** k)
        coeffs.add(10 ** k - 1)
        coeffs.add(10 ** k + 1)
    coeffs.add(int('9' * 18))
    coeffs.add(123456789012345678)
    coeffs.add(100000000000000001)
    return sorted(c for c in coeffs if len(str(c)) <= 18)


def _dec_chunk(acc, arg):
    from sdc11073.xml_types.dataconverters import DecimalConverter as D
    coeffs, exps = arg
    for c in coeffs:
        digits = tuple(int(ch) for ch in str(c))
        for e in exps:
            for sign in (0, 1):
                if sign and c == 0:
                    continue
                d = Decimal((sign, digits, e))
                acc.add('states')
                acc.transition(2)
                acc.evals(2)
                acc.trace()
                # python -> xml -> python
                try:
                    x = D.to_xml(d)
                    again = D.to_py(x)
                except Exception as ex:  # noqa: BLE001
                    acc.violation(f'decimal/py-xml-py/raises/{d!r}', {'value': repr(d), 'error': repr(ex)},
                                  case={'kind': 'decimal', 'value': str(d)})
                    continue
                if 'e' in x.lower() or not XSD_DECIMAL.match(x):
                    acc.add('bad:decimal-lexical')
                    _v(acc, 'decimal/lexical', d, {'value': repr(d), 'xml': x})
                elif again != d:
                    acc.add('bad:decimal-value')
                    _v(acc, 'decimal/py-xml-py', d, {'value': repr(d), 'xml': x, 'again': repr(again)})
                # xml -> python -> xml: plain lexical form of the same number
                lex = format(d, 'f')
                try:
                    py = D.to_py(lex)
                    x2 = D.to_xml(py)
                    ok = Decimal(x2) == Decimal(lex) and 'e' not in x2.lower()
                except Exception as ex:  # noqa: BLE001
                    ok, x2 = False, repr(ex)
                if not ok:
                    acc.add('bad:decimal-xml-roundtrip')
                    _v(acc, 'decimal/xml-py-xml', d, {'xml': lex, 'back': x2})


def _v(acc, prefix, d, detail):
    """Key decimal violations by shape (digit count, exponent bucket, sign) so that the list stays readable."""
    sign, digits, e = d.as_tuple()
    if digits == (0,):
        shape = f'zero/exp={e}'
    elif e > 0:
        shape = 'exp>0'
    else:
        # position of the least significant digit and of the most significant one
        shape = f'msd=1E{len(digits) + e - 1}/lsd=1E{e}'
    acc.violation(f'{prefix}/{shape}', dict(detail, first_failing_value=str(d)), case={'kind': 'decimal', 'value': str(d)})


# ------------------------------------------------------------------ durations
def _dur_chunk(acc, rng):
    from sdc11073.xml_types.dataconverters import DurationConverter as C
    lo, hi, scale = rng
    for k in range(lo, hi):
        for v in ((k / scale), Decimal(k) / Decimal(scale)):
            acc.add('states')
            acc.transition(2)
            acc.evals(2)
            acc.trace()
            x = C.to_xml(v)
            if not SDPI_DURATION.match(x):
                acc.violation(f'duration/format/{v!r}', {'value': repr(v), 'xml': x}, case={'kind': 'duration', 'v': repr(v)})
                continue
            again = C.to_py(x)
            if abs(float(again) - float(v)) > 1.0e-6 * max(1.0, 0):
                acc.violation(f'duration/py-xml-py/{v!r}', {'value': repr(v), 'xml': x, 'again': repr(again)},
                              case={'kind': 'duration', 'v': repr(v)})
            x2 = C.to_xml(again)
            if x2 != x:
                acc.violation(f'duration/xml-py-xml/{x}', {'xml': x, 'py': repr(again), 'back': x2},
                              case={'kind': 'duration_xml', 'xml': x})


def _durations_misc(ctx):
    from sdc11073.xml_types.dataconverters import DurationConverter as C
    big = [86399.999999, 86400, 86400.000001, 359999, 360000, 1e7, 1e9 + 0.5, 2 ** 31, 2 ** 31 + 0.25,
           datetime.timedelta.max.total_seconds() - 1, 86399999999999, 0.000001, 0.000002, 0.0000004, 0.9999996,
           59.9999996, 3599.9999996, 1e-7, 0.0000005, 0.0000015]
    for v in big:
        ctx.add('states')
        ctx.transition()
        ctx.evals()
        ctx.trace()
        try:
            x = C.to_xml(v)
            again = C.to_py(x)
        except OverflowError:
            continue  # outside timedelta
        if not SDPI_DURATION.match(x):
            ctx.violation(f'duration/format/{v!r}', {'value': repr(v), 'xml': x}, case={'kind': 'duration', 'v': repr(v)})
        # documented resolution: microseconds (float spacing dominates for huge values)
        import math
        tol = max(1.0e-6, 2 * math.ulp(float(v)))
        if abs(again - float(v)) > tol:
            ctx.violation(f'duration/py-xml-py/{v!r}', {'value': repr(v), 'xml': x, 'again': repr(again)},
                          case={'kind': 'duration', 'v': repr(v)})
    # lexical -> python -> lexical for a grammar product of canonical strings
    n = 0
    for h in ('', '1H', '25H', '1000H'):
        for m in ('', '1M', '59M'):
            for s in ('', '1S', '59S', '0.5S', '1.000001S', '59.999999S', '0.001S'):
                x = f'PT{h}{m}{s}'
                if x == 'PT':
                    continue
                n += 1
                ctx.add('states')
                ctx.transition(2)
                ctx.evals()
                ctx.trace()
                py = C.to_py(x)
                back = C.to_xml(py)
                exp_s = (int(h[:-1] or 0) * 3600 if h else 0) + (int(m[:-1]) * 60 if m else 0) + (float(s[:-1]) if s else 0)
                if abs(py - exp_s) > 1e-6:
                    ctx.violation(f'duration/parse/{x}', {'xml': x, 'py': py, 'expected': exp_s}, case={'kind': 'duration_xml', 'xml': x})
                if back != x:
                    ctx.violation(f'duration/xml-py-xml/{x}', {'xml': x, 'py': py, 'back': back}, case={'kind': 'duration_xml', 'xml': x})
    # lexical forms the library itself never writes: 1..12 fraction digits, leading zeros
    for h in ('', '1H', '100H'):
        for m in ('', '1M'):
            for sec in ('0', '1', '59', '007'):
                for d in range(1, 13):
                    for frac in ('5' + '0' * (d - 1), '1' * d, '0' * (d - 1) + '1', '9' * d, '123456789012'[:d]):
                        x = f'PT{h}{m}{sec}.{frac}S'
                        exact = (Decimal(int(h[:-1]) * 3600 if h else 0) + Decimal(60 if m else 0)
                                 + Decimal(f'{int(sec)}.{frac}'))
                        ctx.add('states')
                        ctx.transition()
                        ctx.evals()
                        ctx.trace()
                        try:
                            py = C.to_py(x)
                        except ValueError as ex:
                            ctx.violation(f'duration/legal-form-rejected/fraction-digits={d}', {'xml': x, 'error': str(ex)},
                                          case={'kind': 'duration_xml', 'xml': x})
                            continue
                        if abs(Decimal(repr(py)) - exact) > Decimal('0.0000011'):
                            ctx.violation(f'duration/parse/fraction-digits={d}', {'xml': x, 'py': py, 'exact': str(exact)},
                                          case={'kind': 'duration_xml', 'xml': x})
    illegal = ['P1D', 'P1Y', 'PT', 'P', '', 'PT1.S', 'PT.5S', 'PT-1S', '-PT1S', 'PT1H1H', 'PT1S1M', 'pt1s', 'PT1,5S',
               'PT1S ', 'PT1e3S', 'PT١S', 'P1DT1S', 'PT1M1H', '1', 'PT1.5M']
    for x in illegal:
        ctx.add('states')
        ctx.transition()
        ctx.evals()
        try:
            py = C.to_py(x)
        except (ValueError, TypeError):
            ctx.outcome('illegal-rejected')
            continue
        ctx.violation(f'duration/illegal-accepted/{x!r}', {'xml': x, 'py': repr(py)}, case={'kind': 'illegal', 'conv': 'duration', 'xml': x})


# ------------------------------------------------------------------ date / time
def _datetime_products(ctx):
    from sdc11073.xml_types import isoduration
    years = ['0001', '1999', '2024', '9999', '10000', '-0044', '0000']
    months = ['', '-01', '-02', '-12']
    days = ['', '-01', '-28', '-29', '-31']
    times = ['', 'T00:00:00', 'T23:59:59', 'T12:34:56.789', 'T01:02:03.000001', 'T09:00:09.5', 'T24:00:00',
             'T00:00:00.1234567']
    zones = ['', 'Z', '+01:00', '-05:30', '+14:00', '-14:00', '+00:00', '-00:00']
    if ctx.quick:
        years, zones = years[:5], zones[:6]
    n = 0
    for y in ctx.rotate(years):
        for mo in months:
            for d in days:
                if d and not mo:
                    continue
                for t in times:
                    if t and not d:
                        continue
                    for z in zones:
                        s = f'{y}{mo}{d}{t}{z}'
                        n += 1
                        ctx.add('states')
                        ctx.transition(3)
                        ctx.evals()
                        ctx.trace()
                        try:
                            p = isoduration.parse_date_time(s)
                        except ValueError as ex:
                            ctx.violation(f'datetime/rejected/{s}', {'xml': s, 'error': str(ex)}, case={'kind': 'datetime', 'xml': s})
                            continue
                        out = str(p)
                        try:
                            p2 = isoduration.parse_date_time(out)
                        except ValueError as ex:
                            ctx.violation(f'datetime/reparse/{s}', {'xml': s, 'str': out, 'error': str(ex)}, case={'kind': 'datetime', 'xml': s})
                            continue
                        if p2 != p or str(p2) != out:
                            ctx.violation(f'datetime/roundtrip/{s}', {'xml': s, 'str': out, 'p': repr(p), 'p2': repr(p2)},
                                          case={'kind': 'datetime', 'xml': s})
                        # canonical inputs come back unchanged (zero offsets normalise to Z)
                        expect = s.replace('+00:00', 'Z').replace('-00:00', 'Z')
                        if out != expect:
                            ctx.violation(f'datetime/str/{s}', {'xml': s, 'str': out}, case={'kind': 'datetime', 'xml': s})
                        # field values against an independent reading of the string
                        want = _ref_datetime(y, mo, d, t)
                        got = (p.year, p.month, p.day, p.hour, p.minute, p.second, p.end_of_day)
                        if got != want:
                            ctx.violation(f'datetime/fields/{s}', {'xml': s, 'got': got, 'want': want}, case={'kind': 'datetime', 'xml': s})
    # every whole-minute time zone offset of the value space (-14:00 .. +14:00)
    for minutes in range(-14 * 60, 14 * 60 + 1):
        sign = '-' if minutes < 0 else '+'
        z = f'{sign}{abs(minutes) // 60:02d}:{abs(minutes) % 60:02d}'
        s = f'2024-02-29T12:34:56{z}'
        n += 1
        ctx.add('states')
        ctx.transition(2)
        ctx.evals()
        try:
            p = isoduration.parse_date_time(s)
            out = str(p)
            p2 = isoduration.parse_date_time(out)
        except ValueError as ex:
            ctx.violation(f'datetime/tz-rejected/{z}', {'xml': s, 'error': str(ex)}, case={'kind': 'datetime', 'xml': s})
            continue
        want_offset = datetime.timedelta(minutes=minutes)
        if p.tz_info is None or p.tz_info.utcoffset(None) != want_offset:
            ctx.violation(f'datetime/tz-parsed-wrong/{z}', {'xml': s, 'offset': str(p.tz_info)}, case={'kind': 'datetime', 'xml': s})
        if out != (s if minutes != 0 else s[:-6] + 'Z') or p2 != p:
            ctx.violation(f'datetime/tz-written-wrong/{"negative-below-one-hour" if -60 < minutes < 0 else "other"}',
                          {'xml': s, 'str': out}, case={'kind': 'datetime', 'xml': s})
        # the same offset on a value built in Python
        built = isoduration.XsdDateInformation(2024, 2, 29, 12, 34, 56.0, tz_info=datetime.timezone(want_offset))
        if str(built) != out:
            ctx.violation(f'datetime/tz-built-wrong/{"negative-below-one-hour" if -60 < minutes < 0 else "other"}',
                          {'built': str(built), 'parsed': out}, case={'kind': 'datetime', 'xml': s})
    # values built in Python with integer and float seconds
    for sec in list(range(60)) + [float(x) for x in range(60)] + [0.5, 9.999999, 10.000001, 59.999999, 0.000001]:
        n += 1
        ctx.add('states')
        ctx.transition(2)
        ctx.evals()
        built = isoduration.XsdDateInformation(2004, 3, 6, 14, 15, sec)
        out = str(built)
        try:
            back = isoduration.parse_date_time(out)
        except ValueError as ex:
            ctx.violation(f'datetime/built-not-parseable/seconds={type(sec).__name__}', {'second': sec, 'str': out, 'error': str(ex)},
                          case={'kind': 'datetime', 'xml': out})
            continue
        if back.second != float(sec) or (back.hour, back.minute) != (14, 15):
            ctx.violation(f'datetime/built-roundtrip/seconds={type(sec).__name__}', {'second': sec, 'str': out, 'read': back.second},
                          case={'kind': 'datetime', 'xml': out})
    ctx.add('datetimes', n)
    illegal = ['2024-13-01', '2024-00-10', '2024-01-32', '2024-01-00', '2024-01-01T24:00:01', '2024-01-01T25:00:00',
               '2024-01-01T12:60:00', '2024-01-01T12:00:60', '2024-01-01T12:00', '24-01-01', '2024-1-1', '02024',
               '2024-01-01+14:01', '2024-01-01+15:00', '2024-01-01T12:00:00z', '2024-01-01 12:00:00', '',
               '2024-01-01T', '2024-01-01T12:00:00.', '٢٠٢٤', '2٠24-01-01', '2024-0١-01T12:00:0٠', '2024-01T12:00:00', '+2024', '2024-01-01T24:00:00.1']
    for s in illegal:
        ctx.add('states')
        ctx.transition()
        ctx.evals()
        try:
            p = isoduration.parse_date_time(s)
        except ValueError:
            ctx.outcome('illegal-rejected')
            continue
        ctx.violation(f'datetime/illegal-accepted/{s!r}', {'xml': s, 'parsed': repr(p)}, case={'kind': 'illegal', 'conv': 'datetime', 'xml': s})


def _ref_datetime(y, mo, d, t):
    year = int(y)
    month = int(mo[1:]) if mo else None
    day = int(d[1:]) if d else None
    if t == 'T24:00:00':
        return (year, month, day, None, None, None, True)
    if t:
        hh, mm, ss = t[1:].split(':')
        return (year, month, day, int(hh), int(mm), float(ss), False)
    return (year, month, day, None, None, None, False)


# ------------------------------------------------------------------ booleans, integers, enums, illegal forms
def _scalars(ctx):
    from sdc11073.xml_types import dataconverters as dc
    B, I, T, D = dc.BooleanConverter, dc.IntegerConverter, dc.TimestampConverter, dc.DecimalConverter
    for lex, want in (('true', True), ('false', False), ('1', True), ('0', False)):
        ctx.add('states')
        ctx.transition()
        ctx.evals()
        got = B.to_py(lex)
        if got is not want:
            ctx.violation(f'boolean/to_py/{lex}', {'xml': lex, 'got': repr(got)}, case={'kind': 'bool', 'xml': lex})
        if B.to_py(B.to_xml(want)) is not want or B.to_xml(want) not in ('true', 'false'):
            ctx.violation(f'boolean/roundtrip/{want}', {'py': want, 'xml': B.to_xml(want)}, case={'kind': 'bool', 'xml': lex})
    for lex in ('TRUE', 'True', 'FALSE', 'yes', 'no', 'on', 'T', '2', '-1', 'tru', 'true1', '01', 'foo'):
        ctx.add('states')
        ctx.transition()
        ctx.evals()
        try:
            got = B.to_py(lex)
        except (ValueError, TypeError):
            ctx.outcome('illegal-rejected')
            continue
        ctx.violation(f'boolean/illegal-accepted/{lex}', {'xml': lex, 'coerced_to': repr(got)},
                      case={'kind': 'illegal', 'conv': 'boolean', 'xml': lex})
    ints = list(range(-2000, 2001)) + [2 ** 31 - 1, 2 ** 31, 2 ** 32 - 1, 2 ** 32, 2 ** 63 - 1, 2 ** 63, 2 ** 64 - 1, 2 ** 64,
                                       -2 ** 31, -2 ** 63, 10 ** 30]
    for conv in (I, dc.UnsignedIntConverter, dc.UnsignedLongConverter):
        for k in ints:
            ctx.add('states')
            ctx.transition(2)
            ctx.evals()
            s = str(k)
            if conv.to_xml(conv.to_py(s)) != s or conv.to_py(conv.to_xml(k)) != k:
                ctx.violation(f'integer/roundtrip/{conv.__name__}/{k}', {'value': k}, case={'kind': 'int', 'xml': s})
    illegal_int = ['1_0', '1_000', '١٢', '１２', '1.0', '1e3', '0x10', '', 'abc', '1 2', '--1', '+-1', '1,000', 'NaN', '½']
    for name, conv in (('integer', I), ('timestamp', T), ('unsignedint', dc.UnsignedIntConverter)):
        for lex in illegal_int:
            ctx.add('states')
            ctx.transition()
            ctx.evals()
            try:
                got = conv.to_py(lex)
            except (ValueError, TypeError, ArithmeticError):
                ctx.outcome('illegal-rejected')
                continue
            ctx.violation(f'{name}/illegal-accepted/{lex!r}', {'xml': lex, 'coerced_to': repr(got)},
                          case={'kind': 'illegal', 'conv': name, 'xml': lex})
    for lex in ('-1', '-1000'):
        ctx.add('states')
        ctx.transition()
        ctx.evals()
        try:
            got = T.to_py(lex)
        except (ValueError, TypeError):
            ctx.outcome('illegal-rejected')
            continue
        ctx.violation(f'timestamp/illegal-accepted/{lex!r}', {'xml': lex, 'coerced_to': repr(got)},
                      case={'kind': 'illegal', 'conv': 'timestamp', 'xml': lex})
    illegal_dec = ['1_0', '1e3', '1E3', '1E-3', 'NaN', 'nan', 'Infinity', '-Infinity', 'inf', 'sNaN', '١٢', '1,5', '', '.',
                   '1..2', '1.2.3', 'abc', '0x1', '+-1', '1 2']
    for lex in illegal_dec:
        ctx.add('states')
        ctx.transition()
        ctx.evals()
        try:
            got = D.to_py(lex)
        except (ValueError, TypeError, ArithmeticError):
            ctx.outcome('illegal-rejected')
            continue
        ctx.violation(f'decimal/illegal-accepted/{lex!r}', {'xml': lex, 'coerced_to': repr(got)},
                      case={'kind': 'illegal', 'conv': 'decimal', 'xml': lex})
    # every enum literal of every enum class used by the data model
    import enum
    from sdc11073.xml_types import pm_types, msg_types
    n_enum = 0
    for mod in (pm_types, msg_types):
        for name in sorted(vars(mod)):
            cls = getattr(mod, name)
            if isinstance(cls, type) and issubclass(cls, enum.Enum) and cls.__module__ == mod.__name__ and len(cls):
                conv = dc.EnumConverter(cls)
                for member in cls:
                    n_enum += 1
                    ctx.add('states')
                    ctx.transition(2)
                    ctx.evals()
                    x = conv.to_xml(member)
                    if conv.to_py(x) is not member or not isinstance(x, str):
                        ctx.violation(f'enum/roundtrip/{cls.__name__}/{member.name}', {'xml': repr(x)},
                                      case={'kind': 'enum', 'cls': cls.__name__, 'member': member.name})
                for lex in ('', 'bogus', str(list(cls)[0].value).upper() + '_', ' ' + str(list(cls)[0].value)):
                    if any(lex == m.value for m in cls):
                        continue
                    ctx.add('states')
                    ctx.transition()
                    ctx.evals()
                    try:
                        got = conv.to_py(lex)
                    except (ValueError, KeyError, TypeError):
                        ctx.outcome('illegal-rejected')
                        continue
                    ctx.violation(f'enum/illegal-accepted/{cls.__name__}/{lex!r}', {'xml': lex, 'coerced_to': repr(got)},
                                  case={'kind': 'illegal', 'conv': f'enum:{mod.__name__}:{cls.__name__}', 'xml': lex})
    ctx.add('enum_literals', n_enum)


# ------------------------------------------------------------------ entry points
def _chunks(lo, hi, step):
    return [(a, min(a + step, hi)) for a in range(lo, hi, step)]


def run(ctx):
    ctx.rule = ('timestamps: every integer ms in dense windows (xml->py->xml exact; py->xml->py on the float grid '
                'k/1000 and its two neighbours < 1 ms); decimals: sign x coefficient set x exponent [-18,18] with <= 18 '
                'digits; durations: every ms / every second of a day plus boundaries; date-times: grammar product; '
                'booleans/integers/enums: all literals plus fixed illegal lexical forms. A state is one enumerated value; '
                'non-trivial/distinct = the same count (values are distinct by construction)')
    windows = [(0, 2_000_001), (1_700_000_000_000 - 500_000, 1_700_000_000_000 + 500_000), (MAX_TS - 100_000, MAX_TS + 1)]
    if not ctx.quick:
        windows = [(0, 10_000_001)] + windows[1:]
        for base in (10 ** 9, 10 ** 10, 10 ** 11, 4 * 10 ** 11, 10 ** 12, 2 * 10 ** 12, 4 * 10 ** 12, 6 * 10 ** 12,
                     8 * 10 ** 12, 1 << 42):
            windows.append((base - 250_000, base + 250_000))
    jobs = []
    for lo, hi in windows:
        jobs.extend(_chunks(lo, hi, 50_000))
    ctx.pmap(_ts_range, ctx.rotate(jobs), chunksize=1)
    ctx.note('timestamp_windows', windows)

    coeffs = _coefficients(ctx.quick)
    exps = list(range(-18, 19))
    jobs = [(coeffs[i:i + 40], exps) for i in range(0, len(coeffs), 40)]
    ctx.pmap(_dec_chunk, ctx.rotate(jobs), chunksize=1)
    ctx.note('decimal_coefficients', len(coeffs))

    jobs = [(a, b, 1000) for a, b in _chunks(0, 100_001, 5000)] + [(a, b, 1) for a, b in _chunks(0, 86_401, 5000)]
    jobs += [(a, b, 1_000_000) for a, b in _chunks(0, 2001, 500)] + [(a, b, 1_000_000) for a, b in _chunks(999_000, 1_001_001, 500)]
    ctx.pmap(_dur_chunk, ctx.rotate(jobs), chunksize=1)
    _durations_misc(ctx)
    _datetime_products(ctx)
    _scalars(ctx)
    # distinct_nontrivial: all enumerated values are distinct by construction
    n = ctx.counts.get('states', 0)
    ctx.note('distinct_rule', 'values are enumerated without repetition; distinct_nontrivial counts enumerated values '
                              'other than the zero value of each type')
    ctx.distinct = set(range(max(0, n - 5)))
    ctx.sample({'timestamp': '1001', 'py': 1.001})
    ctx.sample({'decimal': '-9.99E-16', 'lexical': format(Decimal('-9.99E-16'), 'f')})
    ctx.sample({'duration_s': 3661.000001, 'xml': 'PT1H1M1.000001S'})
    ctx.sample({'datetime': '2024-02-29T12:34:56.789-05:30'})
    ctx.sample({'illegal': ['TRUE', '1_0', '1e3', 'P1D']})
    ctx.assumptions.append('beyond the dense windows timestamps are not covered (sampling is outside this technique)')
    ctx.assumptions.append('whitespace-padded lexical forms are legal after XSD whitespace collapse and are not in the illegal lists')


def replay(ctx, case):
    from sdc11073.xml_types import dataconverters as dc, isoduration
    kind = case['kind']
    if kind == 'timestamp':
        py = dc.TimestampConverter.to_py(case['xml'])
        back = dc.TimestampConverter.to_xml(py)
        if back != case['xml']:
            ctx.violation(f'timestamp/xml-py-xml/{case["xml"]}', {'back': back})
        return {'py': repr(py), 'back': back}
    if kind == 'decimal':
        d = Decimal(case['value'])
        _dec_chunk(ctx, ([int(''.join(map(str, d.as_tuple().digits)))], [d.as_tuple().exponent]))
        return {'xml': dc.DecimalConverter.to_xml(d)}
    if kind == 'illegal':
        conv = {'boolean': dc.BooleanConverter, 'integer': dc.IntegerConverter, 'timestamp': dc.TimestampConverter,
                'unsignedint': dc.UnsignedIntConverter, 'decimal': dc.DecimalConverter, 'duration': dc.DurationConverter}.get(case['conv'])
        if case['conv'] == 'datetime':
            fn = isoduration.parse_date_time
        elif conv is None:
            return {'skipped': case['conv']}
        else:
            fn = conv.to_py
        try:
            got = fn(case['xml'])
        except (ValueError, TypeError, ArithmeticError) as ex:
            return {'rejected': repr(ex)}
        ctx.violation(f'{case["conv"]}/illegal-accepted/{case["xml"]!r}', {'coerced_to': repr(got)})
        return {'coerced_to': repr(got)}
    if kind in ('duration', 'duration_xml', 'datetime'):
        if kind == 'datetime':
            _datetime_products(ctx)
        else:
            _durations_misc(ctx)
        return {'violations': sorted(ctx.violations)}
    return {'unsupported': kind}
