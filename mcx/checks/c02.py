"""C02 - MDIB version counters are monotonic, gap-free and referentially consistent (provider side)."""
from __future__ import annotations

import itertools

from mcx import alphabet as A
from mcx import canon, hist, mdibwalk
from mcx.runner import h64

PROPERTY = 'C02'
TECHNIQUE = ('explicit-state exploration of provider transaction histories (both interfaces, all ordered pairs of related '
             'operations inside one transaction) on the real ProviderMdib; version/referential invariants on every '
             'pair of consecutive canonical snapshots and across the whole history')

PRE_STATES = [
    [],
    ['create-metric', 'patient-new(A)'],
    ['delete-entity(N1)', 'location(1)'],
    ['create-metric', 'delete(NEW)'],
    ['update-descr(CH)', 'metric(N1,1)'],
    ['create-metric', 'update-descr(NEW)', 'delete(NEW)'],      # a removed handle whose last versions were above 0
]


# ---- operations that can be combined inside ONE descriptor transaction (any order) ---------------------
def _op_update_parent(p, tr):
    d = tr.get_descriptor(A.CH)
    d.SafetyClassification = A._pm().SafetyClassification.MED_B


def _op_update_grandparent(p, tr):
    d = tr.get_descriptor(A.VMD)
    d.SafetyClassification = A._pm().SafetyClassification.MED_C


def _op_add_child(p, tr):
    d = A._mk_metric_descriptor(p, A.NEW, A.CH)
    tr.add_descriptor(d, state_container=p.mdib.data_model.mk_state_container(d))


def _op_remove_sibling(p, tr):
    tr.remove_descriptor(A.NUM1)


def _op_update_sibling_with_state(p, tr):
    d = tr.get_descriptor(A.STR1)
    d.SafetyClassification = A._pm().SafetyClassification.MED_A
    st = tr.get_state(A.STR1)
    if st.MetricValue is None:
        st.mk_metric_value()
    st.MetricValue.Value = 'x'


def _op_entity_update_parent(p, tr):
    ent = p.mdib.entities.by_handle(A.CH)
    ent.descriptor.SafetyClassification = A._pm().SafetyClassification.MED_B
    tr.write_entity(ent)


def _op_entity_add_child(p, tr):
    ent = p.mdib.entities.new_entity(A._names().NumericMetricDescriptor, A.NEW, A.CH)
    ent.descriptor.Type = A._pm().CodedValue('12345')
    ent.descriptor.Unit = A._pm().CodedValue('262656')
    ent.descriptor.Resolution = A.Decimal('0.1')
    ent.descriptor.MetricCategory = A._pm().MetricCategory.MEASUREMENT
    ent.descriptor.MetricAvailability = A._pm().MetricAvailability.CONTINUOUS
    tr.write_entity(ent)


def _op_entity_remove_sibling(p, tr):
    tr.remove_entity(p.mdib.entities.by_handle(A.ENUM1))


def _op_update_child_metric(p, tr):
    d = tr.get_descriptor(A.NUM1)
    d.SafetyClassification = A._pm().SafetyClassification.MED_A


TX_OPS = {
    'upd-parent': _op_update_parent,
    'upd-grandparent': _op_update_grandparent,
    'add-child': _op_add_child,
    'rm-sibling': _op_remove_sibling,
    'upd-sibling+state': _op_update_sibling_with_state,
    'ent-upd-parent': _op_entity_update_parent,
    'ent-add-child': _op_entity_add_child,
    'ent-rm-sibling': _op_entity_remove_sibling,
    'upd-child': _op_update_child_metric,
}
CONFLICTING = {frozenset(('upd-parent', 'ent-upd-parent')), frozenset(('add-child', 'ent-add-child')),
               frozenset(('rm-sibling', 'upd-child'))}


def tx_event(names):
    def ev(p):
        for h in (A.CH, A.VMD, A.NUM1, A.STR1, A.ENUM1):
            A._need(p, h)
        A._need(p, A.NEW, present=False)
        with p.mdib.descriptor_transaction() as tr:
            for n in names:
                TX_OPS[n](p, tr)
    return ev


TX_EVENTS = {}
for a, b in itertools.permutations(TX_OPS, 2):
    if frozenset((a, b)) in CONFLICTING:
        continue  # the API rejects these combinations (same handle twice); rejected calls belong to C03
    TX_EVENTS[f'tx[{a};{b}]'] = tx_event([a, b])
for a, b, c in (('add-child', 'upd-parent', 'rm-sibling'), ('rm-sibling', 'add-child', 'upd-grandparent'),
                ('ent-add-child', 'ent-rm-sibling', 'ent-upd-parent')):
    TX_EVENTS[f'tx[{a};{b};{c}]'] = tx_event([a, b, c])


def _event_fn(name):
    if name.startswith('abort[') and name not in A.EVENT_BY_NAME:
        A.EVENT_BY_NAME[name] = A.aborted(name[6:-1])
    if name.startswith('late-raise[') and name not in A.EVENT_BY_NAME:
        A.EVENT_BY_NAME[name] = A.late_raise(name[11:-1])
    return TX_EVENTS.get(name) or A.EVENT_BY_NAME[name]


def _apply(walk, name):
    fn = _event_fn(name)

    def wrapped(p):
        fn(p)
    rec = walk.step(name, wrapped)
    if rec.result == 'raised' and isinstance(rec.error, A.Disabled):
        rec.result = 'disabled'
        rec.error = None
    return rec


# ---- oracle -------------------------------------------------------------------------------------------
VERSION_FIELD = {'d': 'DescriptorVersion', 's': 'StateVersion', 'c': 'StateVersion'}


def _split(key, c):
    items = dict(c[1])
    version = items.get(VERSION_FIELD[key[0]])
    rest = (c[0], tuple((k, v) for k, v in c[1] if k != VERSION_FIELD[key[0]]))
    return version, rest


def _children(content):
    out = {}
    for key, c in content.items():
        if key[0] == 'd':
            parent = next((el[1] for el in c[0] if isinstance(el, tuple) and el[0] == 'parent'), None)
            if parent is not None:
                out.setdefault(parent, set()).add(key[1])
    return out


class Tracker:
    """History-wide bookkeeping kept by the harness (independent of handle_version_lookup)."""

    def __init__(self, snap):
        self.max_version = {}
        self.last_content = {}
        self.published = {}
        self.note(snap)

    def note(self, snap):
        for key, c in canon.content(snap).items():
            if key[0] not in VERSION_FIELD:
                continue
            v, rest = _split(key, c)
            if v is None:
                v = 0
            self.max_version[key] = max(v, self.max_version.get(key, -1))
            self.last_content[key] = rest
            self.published.setdefault((key, v), rest)


def check_step(rec, tracker, mdib):
    before, after = rec.before, rec.after
    created, updated, deleted = mdibwalk.changed_keys(before, after)
    changed = created | updated | deleted
    delta = after['mdib_version'] - before['mdib_version']
    if rec.result == 'raised':
        if delta != 0:
            return ('mdib-version-changed-by-aborted-tx', f'delta={delta}', repr(rec.error)[:200])
        # content after an aborted transaction is C03's subject
        return None
    if rec.result == 'disabled':
        return None
    if changed and delta != 1:
        return ('mdib-version-not-incremented-by-one', f'delta={delta}', {'changed': sorted(map(str, changed))[:6]})
    if not changed and delta != 0:
        return ('mdib-version-incremented-without-change', f'delta={delta}', {})
    b, a = canon.content(before), canon.content(after)
    for key in sorted(a, key=repr):
        if key[0] not in VERSION_FIELD:
            return ('foreign-object-in-table', str(key), {})
        v, rest = _split(key, a[key])
        v = 0 if v is None else v
        seen_max = tracker.max_version.get(key)
        if seen_max is not None and v < seen_max:
            return ('version-decreased', f'{key[0]}', {'key': key, 'version': v, 'max_seen': seen_max,
                                                         'recreated': key not in b})
        last = tracker.last_content.get(key)
        if last is not None and rest != last and seen_max is not None and v <= seen_max:
            return ('content-changed-without-version-increase', f'{key[0]}',
                    {'key': key, 'version': v, 'previous_version': seen_max, 'recreated': key not in b,
                     'diff': canon._item_diff((last[0], last[1]), (rest[0], rest[1]))})
        pub = tracker.published.get((key, v))
        if pub is not None and pub != rest:
            return ('same-version-two-contents', f'{key[0]}', {'key': key, 'version': v})
    # the set of children is part of what a descriptor publishes (MdDescription nests them): when it changes, the parent's
    # DescriptorVersion must rise and the parent must be reported
    kids_b, kids_a = _children(b), _children(a)
    for ph in sorted(set(kids_b) | set(kids_a)):
        if ('d', ph) in b and ('d', ph) in a and kids_b.get(ph, set()) != kids_a.get(ph, set()):
            vb, _ = _split(('d', ph), b[('d', ph)])
            va, _ = _split(('d', ph), a[('d', ph)])
            if (va or 0) <= (vb or 0):
                return ('children-changed-without-parent-version-increase', 'd',
                        {'parent': ph, 'version': va, 'children_before': sorted(kids_b.get(ph, set())),
                         'children_after': sorted(kids_a.get(ph, set()))})
    # the transaction result must not name one (handle, version) with two different contents
    for tx in rec.tx_result:
        seen = {}
        for lst_name in ('descr_created', 'descr_updated', 'descr_deleted', 'metric_updates', 'alert_updates',
                         'comp_updates', 'ctxt_updates', 'op_updates', 'rt_updates'):
            for cont in getattr(tx, lst_name, []):
                key = canon.key_of(cont)
                v = canon.version_of(cont)
                c = canon.canon_obj(cont)
                prev = seen.get((key, v))
                if prev is not None and prev[1] != c:
                    return ('transaction-publishes-same-version-twice-with-different-content', f'{lst_name}',
                            {'key': key, 'version': v, 'lists': [prev[0], lst_name],
                             'diff': canon._item_diff(prev[1], c)})
                seen[(key, v)] = (lst_name, c)
        # untouched objects stay untouched: every changed key must be named by the transaction result
        reported = {k for (k, _v) in seen}
        deleted_handles = {k[1] for k in reported if k[0] == 'd' and k in deleted}
        for key in changed:
            if key in reported:
                continue
            if key in deleted:
                # states / context states of deleted descriptors disappear with them
                c = b[key]
                dh = dict(c[1]).get('DescriptorHandle')
                if dh in deleted_handles:
                    continue
                if key[0] == 'c' and ('d', dh) in reported:
                    continue  # a context state dropped by writing its (updated) descriptor entity: reported implicitly
            return ('object-changed-but-not-part-of-transaction', f'{key[0]}', {'key': key,
                                                                               'reported': sorted(map(str, reported))[:8]})
    ref = canon.referential(mdib)
    if ref:
        return ('referential', ref[0].split(':')[0].split(' ')[0], ref[:4])
    return None


def run_hist(h, acc=None):
    walk = mdibwalk.Walk(with_consumer=False)
    tracker = Tracker(canon.snapshot(walk.provider.mdib))
    for i, name in enumerate(h):
        rec = _apply(walk, name)
        if acc is not None:
            acc.transition()
            acc.outcome('event-' + rec.result)
            k = h64(mdibwalk.state_key(rec.after))
            if acc.state(k):
                acc.nontrivial(k)
        bad = check_step(rec, tracker, walk.provider.mdib)
        if bad is not None:
            return (i,) + bad
        tracker.note(rec.after)
    return None


def _work(acc, h):
    acc.trace()
    acc.evals()
    res = run_hist(h, acc)
    if res is not None:
        step, kind, sig, detail = res
        small = hist.minimise(lambda c: run_hist(c), h, step, kind, sig)
        acc.add(f'bad:{kind}')
        acc.violation(f'{kind}/{">".join(small)}', {'history': small, 'signature': sig, 'detail': detail,
                                                    'found_in': h[:step + 1]}, case={'history': small})
    if len(acc.samples) < 2:
        acc.sample({'history': h, 'result': 'violation' if res else 'all version invariants hold after every prefix'})


def run(ctx):
    names = [n for n, _ in A.EVENTS]
    txs = list(TX_EVENTS)
    ctx.rule = ('histories over %d single-transaction events (mcx/alphabet.py) and %d multi-operation descriptor transactions '
                '(all ordered pairs of 9 related operations: parent, grandparent, child, siblings, with state, classic and '
                'entity interface); distinct_nontrivial = distinct canonical provider snapshots' % (len(names), len(txs)))
    jobs = hist.sequences(names, 2)
    jobs += [pre + [t] for pre in PRE_STATES for t in txs]
    core = A.CORE
    jobs += [[t, e] for t in txs for e in core]
    # stale entity copies: read an entity, commit something else, then write the old copy (also twice in a row)
    for h, w in (('CH', 'write-stashed(CH)'), ('N1', 'write-stashed(N1)'), ('PAT', 'write-stashed(PAT)'),
                 ('N1', 'write-stashed-state(N1,8)')):
        jobs += [[f'stash({h})', e, w] for e in names + txs[:20]]
        jobs += [[f'stash({h})', w, w], [f'stash({h})', w, 'update-descr(CH)', w]]
    # a metric kind that none of the MDIB files contains (distribution sample array): create / update / value / delete /
    # re-create through both interfaces
    dist = ['create-dist-metric', 'create-dist-metric-entity', 'update-dist-metric', 'update-dist-metric-entity',
            'dist-metric-value', 'delete(DIST)']
    jobs += [list(h) for h in hist.sequences(dist, 3) if h[0].startswith('create')]
    jobs += [['create-dist-metric', 'update-dist-metric', 'delete(DIST)', c, u] for c in dist[:2] for u in dist[2:5]]
    # aborted transactions (pre-commit handler raises) between a delete and a re-create, and in general
    creators = [n for n in names if n.startswith(('create', 'patient-new', 'patient-entity-new', 'parent+child', 'delete'))]
    for pre in ([PRE_STATES[3], PRE_STATES[5]] if ctx.quick else PRE_STATES):
        jobs += [pre + [f'abort[{a}]', e] for a in creators for e in creators]
    jobs += [[f'abort[{a}]', a] for a in names]
    # application code raising after the commit (post-commit handler): the commit stands, the next one gets the next version
    jobs += [[f'late-raise[{a}]', e] for a in A.CORE for e in (A.CORE if not ctx.quick else A.CORE[:6])]
    if not ctx.quick:
        jobs += hist.sequences(core, 3)
        jobs += [[t1, t2] for t1 in txs for t2 in txs]
        jobs += [pre + [t, e] for pre in PRE_STATES[1:] for t in txs for e in core[:8]]
    jobs = ctx.rotate(jobs)
    ctx.note('histories', len(jobs))
    ctx.note('bounds', {'alphabet': len(names), 'tx_events': len(txs), 'depth': 2 if ctx.quick else 3,
                        'pre_states': len(PRE_STATES)})
    ctx.pmap(_work, jobs)
    ctx.assumptions.append('provider side only (ProviderMdib + SdcProvider with role providers, no subscriber); '
                           'MDIB tests/mdib_tns.xml')


def replay(ctx, case):
    res = run_hist(case['history'])
    if res is not None:
        step, kind, sig, detail = res
        ctx.violation(f'{kind}/{">".join(case["history"])}', {'step': step, 'signature': sig, 'detail': detail})
    return {'result': None if res is None else [res[0], res[1], res[2]]}
