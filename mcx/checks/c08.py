"""C08 - WS-Eventing subscriptions deliver exactly while alive and end cleanly."""
from __future__ import annotations

import types

from mcx import alphabet as A
from mcx import canon, world
from mcx.runner import h64

PROPERTY = 'C08'
TECHNIQUE = ('explicit-state breadth-first search (canonical-state dedup) over histories of Subscribe / Renew / GetStatus / '
             'Unsubscribe / report / clock-tick / housekeeping / delivery-fault / shutdown events on the real subscription '
             'managers inside the real provider dispatch chain, against a reference model of subscription liveness driven by '
             'the same virtual clock')

MAX_DURATION = 15
SUBSCRIBERS = {
    # A's EndTo lives on another port than its NotifyTo (legal: SubscriptionEnd must be posted to that connection)
    'A': {'ip': '10.0.1.1', 'port': 7001, 'end_to': True, 'end_port': 7101, 'filter': ['EpisodicMetricReport', 'EpisodicAlertReport']},
    'B': {'ip': '10.0.1.2', 'port': 7002, 'end_to': False, 'filter': ['EpisodicMetricReport']},
}
MANAGERS = ('path-sync', 'ref-sync', 'path-async', 'ref-async')


def _manager_class(name):
    from sdc11073.provider import subscriptionmgr, subscriptionmgr_async
    return {'path-sync': subscriptionmgr.PathDispatchingSubscriptionsManager,
            'ref-sync': subscriptionmgr.ReferenceParamSubscriptionsManager,
            'path-async': subscriptionmgr_async.SubscriptionsManagerPathAsync,
            'ref-async': subscriptionmgr_async.SubscriptionsManagerReferenceParamAsync}[name]


class Recorder:
    """A subscriber endpoint: records everything POSTed to it."""

    def __init__(self):
        self.received = []

    def do_post(self, headers, path, peer, data):  # noqa: ARG002
        self.received.append((path, data))
        return 202, 'Accepted', b''


class Sim:
    def __init__(self, mgr_name, scheduler=None):
        self.mgr_name = mgr_name
        self.w = world.World()
        if scheduler is not None:
            world.ENV.sched = scheduler     # before the provider exists: its locks become scheduler-aware
        cls = _manager_class(mgr_name)

        def hook(comps):
            comps.subscriptions_manager_class = {'StateEvent': cls, 'Set': cls}
        self.p = self.w.mk_provider(async_mgr='async' in mgr_name, components_hook=hook,
                                    max_subscription_duration=MAX_DURATION)
        self.mgr = self.p._subscriptions_managers['StateEvent']
        self.owner = world.Owner('subscribers', '10.0.1.9')
        self.client_cls = world.mk_loop_client_class(self.w.wire, self.owner)
        self.clients = {}
        self.rec = {}
        for name, cfg in SUBSCRIBERS.items():
            srv = world.FakeHttpServer(self.w.wire, cfg['ip'], cfg['port'])
            self.rec[name] = Recorder()
            srv.dispatcher.register_instance('notify', self.rec[name])
            srv.dispatcher.register_instance('end', self.rec[name])
            if cfg.get('end_port'):
                srv2 = world.FakeHttpServer(self.w.wire, cfg['ip'], cfg['end_port'])
                srv2.dispatcher.register_instance('end', self.rec[name])
                srv2.dispatcher.register_instance('notify', self.rec[name])
        self.hosted_address = None
        for svc in self.p.hosted_services.dpws_hosted_services.values():
            if svc.subscriptions_manager is self.mgr:
                base = self.p.base_urls[0]
                self.hosted_address = f'{base.scheme}://{base.netloc}/{base.path}/{svc.path_element}'
        self.reset()

    # ---- per-history reset (the provider is reused: building one costs 50 ms)
    def reset(self):
        from sdc11073.pysoap.soapclientpool import SoapClientPool  # noqa: F401
        self.mgr._subscriptions.clear()
        pool = self.p._soap_client_pool
        pool._soap_clients.clear()
        world.ENV.now = world.T0
        world.ENV.uuid_counter = 1000
        del self.w.wire.log[:]
        self.w.wire.intercept = self._intercept
        self.fault = {n: 'ok' for n in SUBSCRIBERS}
        self.mid_hook = None
        self.subs = {}      # name -> ConsumerSubscription (real consumer-side class builds the requests)
        self.model = {}     # name -> dict
        self.stopped = False
        for r in self.rec.values():
            del r.received[:]
        self.mgr._run_housekeeping_thread = False

    def _intercept(self, client, path, data, msg):
        import http.client
        from sdc11073.pysoap.soapclient import HTTPReturnCodeError
        for name, cfg in SUBSCRIBERS.items():
            if client.netloc == f'{cfg["ip"]}:{cfg["port"]}':
                if self.mid_hook is not None and b'SubscriptionEnd' not in data:
                    hook, self.mid_hook = self.mid_hook, None
                    hook(name, msg.idx)
                mode = self.fault[name]
                if mode == 'http500':
                    return ('raise', HTTPReturnCodeError(500, 'Internal Server Error', None))
                if mode == 'refused':
                    return ('raise', ConnectionRefusedError('refused'))
                if mode == 'timeout':
                    return ('raise', TimeoutError('timed out'))
                if mode == 'notconnected':
                    return ('raise', http.client.NotConnected())
        return None

    def _soap_client(self, address):
        from urllib.parse import urlparse
        netloc = urlparse(address).netloc
        c = self.clients.get(netloc)
        if c is None:
            c = self.client_cls(netloc, 5, None, None, self.p.mdib.sdc_definitions, self.p.msg_reader,
                                supported_encodings=[], request_encodings=[])
            self.clients[netloc] = c
        return c

    def _mk_subscription(self, name):
        from sdc11073.consumer.subscription import ConsumerSubscription
        from sdc11073.xml_types import eventing_types
        from sdc11073.xml_types.dpws_types import DeviceEventingFilterDialectURI
        cfg = SUBSCRIBERS[name]
        actions = self.p.mdib.sdc_definitions.Actions
        ft = eventing_types.FilterType()
        # subscriber A writes its filter pretty-printed: one action per line, indented (legal: white space separated list)
        sep = '\n        ' if name == 'A' else ' '
        ft.text = sep.join(getattr(actions, a).value for a in cfg['filter']) + ('\n    ' if name == 'A' else '')
        ft.Dialect = DeviceEventingFilterDialectURI.ACTION
        hosted = types.SimpleNamespace(EndpointReference=[types.SimpleNamespace(Address=self.hosted_address)])
        base = f'http://{cfg["ip"]}:{cfg["port"]}'
        return ConsumerSubscription(self.p.msg_factory, self.p.mdib.data_model, self._soap_client, hosted, ft,
                                    f'{base}/notify/{name}',
                                    (f'http://{cfg["ip"]}:{cfg.get("end_port") or cfg["port"]}/end/{name}') if cfg['end_to'] else None,
                                    'verif')

    # ---- model helpers
    def _live(self, name):
        m = self.model.get(name)
        if m is None or m['unsubscribed'] or m['ended'] or m['failures'] >= 1:
            return False
        return (world.ENV.now - m['started']) < m['expires']

    def _remaining(self, name):
        m = self.model[name]
        return m['expires'] - (world.ENV.now - m['started'])

    def _deliveries(self, n0):
        """(subscriber, kind) for every POST attempted towards a subscriber endpoint since wire index n0."""
        out = []
        for msg in self.w.wire.log[n0:]:
            for name, cfg in SUBSCRIBERS.items():
                if msg.netloc in (f'{cfg["ip"]}:{cfg["port"]}', f'{cfg["ip"]}:{cfg.get("end_port")}'):
                    kind = 'end' if b'SubscriptionEnd' in msg.data else 'notification'
                    out.append((name, kind, msg.path if msg.netloc.endswith(f':{cfg["port"]}') else f'{msg.netloc}{msg.path}'))
        return out

    # ---- events --------------------------------------------------------------------------------
    def event(self, ev):  # noqa: C901, PLR0912, PLR0915
        """Return (status, problems)."""
        from sdc11073.pysoap.soapclient import HTTPReturnCodeError
        kind = ev[0]
        problems = []
        if self.stopped:
            return 'disabled', []
        n0 = len(self.w.wire.log)
        table_before = self._table()
        if kind == 'sub':
            _, name, expires = ev
            if name in self.subs and self._live(name):
                return 'disabled', []
            sub = self._mk_subscription(name)
            sub.subscribe(expires if expires is not None else 0)
            if not sub.is_subscribed:
                problems.append('Subscribe was not accepted')
                return 'ok', problems
            granted = sub.granted_expires
            want = min(expires, MAX_DURATION) if expires else MAX_DURATION
            if granted is None or granted > want + 1e-6:
                problems.append(f'granted expiry {granted} exceeds min(requested, maximum) = {want}')
            self.subs[name] = sub
            self.model[name] = {'started': world.ENV.now, 'expires': want, 'unsubscribed': False, 'ended': False,
                                'failures': 0}
        elif kind in ('renew', 'status', 'unsub'):
            _, name, arg = ev
            sub = self.subs.get(name)
            if sub is None:
                return 'disabled', []
            known = self._live(name)
            sub.is_subscribed = True  # the subscriber keeps talking, whatever it believes about the subscription
            fault = False
            result = None
            try:
                if kind == 'renew':
                    result = sub.renew(arg)
                    fault = not sub.is_subscribed
                elif kind == 'status':
                    result = sub.get_status()
                    fault = not sub.is_subscribed
                else:
                    sub.unsubscribe()
            except HTTPReturnCodeError:
                fault = True
            except Exception as ex:  # noqa: BLE001
                problems.append(f'{kind} raised {ex!r}')
                return 'ok', problems
            if known:
                if fault:
                    problems.append(f'{kind} for a live subscription was answered with a fault')
                elif kind == 'renew':
                    want = min(arg, MAX_DURATION) if arg else MAX_DURATION
                    self.model[name]['started'] = world.ENV.now
                    self.model[name]['expires'] = want
                    if result is None or result > want + 1e-6 or abs(result - want) > 0.011:
                        problems.append(f'Renew granted {result}, expected {want}')
                elif kind == 'status':
                    rem = self._remaining(name)
                    if result is None or abs(result - rem) > 0.011:
                        problems.append(f'GetStatus reports {result}, remaining time is {rem}')
                else:
                    self.model[name]['unsubscribed'] = True
            else:
                if not fault:
                    why = ('unsubscribed' if self.model[name]['unsubscribed'] else 'ended' if self.model[name]['ended']
                           else 'failed' if self.model[name]['failures'] else 'expired')
                    problems.append(f'{kind} for a subscription that is no longer alive ({why}) was not answered with a fault')
                elif self._table() != table_before:
                    problems.append(f'a rejected {kind} changed the subscription table')
        elif kind == 'unknown':
            _, what = ev
            sub = self._mk_subscription('A')
            sub.is_subscribed = True
            from sdc11073.xml_types import eventing_types
            sub.subscribe_response = eventing_types.SubscribeResponse()
            sub.subscribe_response.SubscriptionManager.Address = self.hosted_address + '/0123456789abcdef0123456789abcdef'
            from lxml import etree
            ident = etree.Element(etree.QName('http.local.com', 'MyDevIdentifier'))
            ident.text = '0123456789abcdef0123456789abcdef'
            sub.subscribe_response.SubscriptionManager.ReferenceParameters = [ident]
            from urllib.parse import urlparse
            sub._subscription_manager_path = urlparse(sub.subscribe_response.SubscriptionManager.Address).path
            fault = False
            try:
                if what == 'renew':
                    sub.renew(5)
                    fault = not sub.is_subscribed
                elif what == 'status':
                    sub.get_status()
                    fault = not sub.is_subscribed
                else:
                    sub.unsubscribe()
            except HTTPReturnCodeError:
                fault = True
            except Exception as ex:  # noqa: BLE001
                problems.append(f'{what} with unknown identifier raised {ex!r}')
            if not fault:
                problems.append(f'{what} naming an unknown subscription was not answered with a fault')
            if self._table() != table_before:
                problems.append(f'{what} naming an unknown subscription changed the table')
        elif kind == 'report':
            _, what = ev
            expected = sorted(n for n in SUBSCRIBERS if self._live(n) and
                              ('EpisodicMetricReport' if what == 'metric' else 'EpisodicAlertReport') in SUBSCRIBERS[n]['filter'])
            try:
                A.apply(self.p, 'metric(N1,1)' if what == 'metric' else 'alert-cond(on)')
            except Exception as ex:  # noqa: BLE001
                problems.append(f'report transaction raised {ex!r}')
            got = sorted(n for n, k, _ in self._deliveries(n0) if k == 'notification')
            if got != expected:
                problems.append(f'{what} report handed to {got}, live matching subscribers are {expected}')
            for n in expected:
                if self.fault[n] != 'ok':
                    self.model[n]['failures'] += 1
        elif kind == 'report-mid':
            # while the report is being delivered to the first subscriber, another subscriber unsubscribes (in a second
            # real thread: if the manager holds a lock during delivery the request simply waits) or its subscription
            # expires: "alive at send time" must be decided when its own notification is sent
            _, what, action = ev
            action_name = 'EpisodicMetricReport' if what == 'metric' else 'EpisodicAlertReport'
            live = sorted(n for n in SUBSCRIBERS if self._live(n) and action_name in SUBSCRIBERS[n]['filter'])
            if len(live) < 2 or any(self.fault[n] != 'ok' for n in live):
                return 'disabled', []
            if action == 'unsub-other' and 'async' in self.mgr_name:
                return 'disabled', []    # the async managers hand a report to all subscribers at once (one gather)
            st = {'first': None, 'victim': None, 'answered_at': None, 'blocked': False, 'thread': None, 'error': None}

            def hook(first, wire_idx):
                st['first'] = first
                victim = [n for n in live if n != first][0]
                st['victim'] = victim
                if action == 'expire-other':
                    world.ENV.now += max(self._remaining(n) for n in live) + 1.0
                    st['answered_at'] = len(self.w.wire.log)
                    return

                def do():
                    try:
                        self.subs[victim].unsubscribe()
                        st['answered_at'] = len(self.w.wire.log)
                    except Exception as ex:  # noqa: BLE001
                        st['error'] = repr(ex)
                import threading as _t
                th = _t.Thread(target=do, daemon=True)
                st['thread'] = th
                th.start()
                th.join(1.0)
                st['blocked'] = th.is_alive()
            self.mid_hook = hook
            try:
                A.apply(self.p, 'metric(N1,1)' if what == 'metric' else 'alert-cond(on)')
            except Exception as ex:  # noqa: BLE001
                problems.append(f'report transaction raised {ex!r}')
            self.mid_hook = None
            if st['thread'] is not None:
                st['thread'].join(10.0)
            if st['error']:
                problems.append(f'Unsubscribe during delivery raised {st["error"]}')
            victim = st['victim']
            if victim is not None:
                if action == 'expire-other':
                    for n in live:
                        self.model[n]['expires'] = -1.0          # all expired by the jump of the clock
                else:
                    self.model[victim]['unsubscribed'] = True
                if st['answered_at'] is not None and not st['blocked']:
                    late = [m for m in self.w.wire.log[st['answered_at']:]
                            if m.netloc == f'{SUBSCRIBERS[victim]["ip"]}:{SUBSCRIBERS[victim]["port"]}' and b'SubscriptionEnd' not in m.data]
                    if late:
                        why = 'its Unsubscribe was answered' if action == 'unsub-other' else 'its subscription expired'
                        problems.append(f'{what} report delivered to {victim} after {why} (during the delivery to {st["first"]})')
        elif kind == 'tick':
            world.ENV.now += ev[1]
        elif kind == 'housekeeping':
            calls = []

            def one(seconds):
                calls.append(seconds)
                world.ENV.now += 0.0  # the sleep itself is not part of the model: ticks are explicit
                self.mgr._run_housekeeping_thread = False
            world.ENV.sleep_hook = one
            try:
                self.mgr._do_housekeeping()
            finally:
                world.ENV.sleep_hook = None
            if self._deliveries(n0):
                problems.append('housekeeping sent messages to subscribers')
        elif kind == 'fault':
            self.fault[ev[1]] = ev[2]
        elif kind == 'stop':
            send_end = ev[1]
            expected = sorted(n for n in SUBSCRIBERS if self._live(n)) if send_end else []
            self.p._subscriptions_managers['StateEvent'].stop_all(send_end)
            self.stopped = True
            ends = [(n, p) for n, k, p in self._deliveries(n0) if k == 'end']
            got = sorted(n for n, _ in ends)
            if got != expected:
                problems.append(f'SubscriptionEnd sent to {got}, live subscriptions are {expected}')
            for n, path in ends:
                cfgn = SUBSCRIBERS[n]
                want_path = f'/end/{n}' if cfgn['end_to'] else f'/notify/{n}'
                if cfgn['end_to'] and cfgn.get('end_port'):
                    want_path = f'{cfgn["ip"]}:{cfgn["end_port"]}/end/{n}'      # posted on the EndTo connection
                if path != want_path:
                    problems.append(f'SubscriptionEnd for {n} addressed to {path}, expected {want_path}')
            if any(k == 'notification' for _, k, _ in self._deliveries(n0)):
                problems.append('notification sent during shutdown')
        else:
            raise ValueError(ev)
        problems += [f'scan: {x}' for x in canon.scan_ok(self.mgr._subscriptions)]
        # liveness agreement: no live (model) subscription may be missing from the table
        if not self.stopped:
            idents = self._table()
            for n in SUBSCRIBERS:
                if self._live(n) and not any(t[0] == n for t in idents):
                    problems.append(f'live subscription of {n} is missing in the table')
        return 'ok', problems

    def _table(self):
        out = []
        for s in self.mgr._subscriptions.objects:
            who = '?'
            for n, cfg in SUBSCRIBERS.items():
                if s.notify_to_url.netloc == f'{cfg["ip"]}:{cfg["port"]}':
                    who = n
            out.append((who, round(s.remaining_seconds, 2), s.notify_errors, s.is_closed(), s.unsubscribed_at is not None))
        return sorted(out)

    def key(self):
        m = tuple(sorted((n, round(world.ENV.now - v['started'], 3), v['expires'], v['unsubscribed'], v['ended'],
                          min(v['failures'], 1)) for n, v in self.model.items()))
        return (m, tuple(sorted(self.fault.items())), tuple(self._table()), self.stopped)


def events(quick):
    evs = []
    for n in SUBSCRIBERS:
        for e in ((None, 5, 99) if quick else (None, 5, 11, 99)):
            evs.append(('sub', n, e))
        evs += [('renew', n, 5), ('renew', n, 99), ('status', n, None), ('unsub', n, None)]
        for mode in (('ok', 'http500', 'refused', 'timeout') if quick else ('ok', 'http500', 'refused', 'timeout', 'notconnected')):
            evs.append(('fault', n, mode))
    evs += [('report-mid', 'metric', 'unsub-other'), ('report-mid', 'metric', 'expire-other')]
    evs += [('unknown', 'renew'), ('unknown', 'status'), ('unknown', 'unsub'), ('report', 'metric'), ('report', 'alert'),
            ('tick', 2), ('tick', 4), ('housekeeping',), ('stop', True), ('stop', False)]
    return evs


_SIMS = {}


def _sim(mgr_name):
    s = _SIMS.get(mgr_name)
    if s is None or s.uses > 400:
        if s is not None:
            s.w.close()
        s = Sim(mgr_name)
        s.uses = 0
        _SIMS[mgr_name] = s
    s.uses += 1
    return s


def _expand(acc, job):
    """Replay `history`, then try every event; emit successors, report problems."""
    mgr_name, history, evs = job
    for ev in evs:
        sim = _sim(mgr_name)
        sim.reset()
        ok = True
        for past in history:
            st, probs = sim.event(tuple(past))
            if probs:
                ok = False
                break
        if not ok:
            continue
        status, problems = sim.event(tuple(ev))
        acc.transition()
        acc.trace()
        acc.evals()
        acc.outcome(f'{ev[0]}:{status}')
        if status == 'disabled':
            continue
        hist_full = list(history) + [ev]
        if problems:
            sig = problems[0].split(' handed to')[0][:70]
            acc.violation(f'{mgr_name}/{_classify(problems[0])}/{_fmt(_minimise(mgr_name, hist_full, problems[0]))}',
                          {'manager': mgr_name, 'history': [list(map(str, e)) for e in hist_full], 'problems': problems[:3]},
                          case={'manager': mgr_name, 'history': [list(e) for e in hist_full]})
            continue
        acc.emit((h64((mgr_name, sim.key())), hist_full))


def _classify(problem):
    for tag in ('handed to', 'no longer alive', 'unknown subscription', 'granted', 'GetStatus reports', 'SubscriptionEnd',
                'scan:', 'missing in the table', 'answered with a fault', 'raised', 'housekeeping', 'Renew granted'):
        if tag in problem:
            return tag.replace(' ', '-').strip(':')
    return 'other'


def _fails(mgr_name, history, cls):
    sim = _sim(mgr_name)
    sim.reset()
    for i, ev in enumerate(history):
        st, probs = sim.event(tuple(ev))
        if probs:
            return i == len(history) - 1 and _classify(probs[0]) == cls
    return False


def _minimise(mgr_name, history, problem):
    cls = _classify(problem)
    cur = list(history)
    changed = True
    while changed and len(cur) > 1:
        changed = False
        for i in range(len(cur) - 1):
            cand = cur[:i] + cur[i + 1:]
            if _fails(mgr_name, cand, cls):
                cur = cand
                changed = True
                break
    return cur


def _fmt(history):
    return '>'.join('.'.join(str(x) for x in ev) for ev in history)


def _bfs(ctx, mgr_name, evs, depth, tag):
    seen = set()
    frontier = [[]]
    for level in range(depth):
        jobs = []
        for h in frontier:
            for i in range(0, len(evs), 6):
                jobs.append((mgr_name, h, evs[i:i + 6]))
        del ctx.emitted[:]
        ctx.pmap(_expand, jobs, chunksize=max(1, len(jobs) // 256))
        nxt = []
        for key, h in sorted(ctx.emitted, key=lambda t: (len(t[1]), _fmt(t[1]))):
            if key not in seen:
                seen.add(key)
                ctx.state(key)
                ctx.nontrivial(key)
                nxt.append(h)
        frontier = nxt
        ctx.note(f'frontier_{tag}_{mgr_name}_depth{level + 1}', len(frontier))
        if len(frontier) > 6000:
            ctx.cap(f'frontier_{tag}_{mgr_name}', f'frontier of {len(frontier)} states at depth {level + 1} cut to 6000')
            frontier = frontier[:6000]
        if not frontier:
            break
    return len(seen)


def _transport_status(ctx):
    """The delivery-failure counting rests on the notification client reporting every HTTP error answer of the subscriber,
    whatever its body looks like: the real SoapClient gets every status x body shape from a scripted connection."""
    import http.client
    import io
    from sdc11073 import loghelper
    from sdc11073.pysoap.soapclient import HTTPReturnCodeError, SoapClient

    def resp(raw):
        class S:
            def makefile(self, *a, **k):  # noqa: ARG002
                return io.BytesIO(raw)
        r = http.client.HTTPResponse(S())
        r.begin()
        return r
    fault = (b'<s12:Envelope xmlns:s12="http://www.w3.org/2003/05/soap-envelope"><s12:Body><s12:Fault><s12:Code><s12:Value>s12:Receiver'
             b'</s12:Value></s12:Code><s12:Reason><s12:Text xml:lang="en">no</s12:Text></s12:Reason></s12:Fault></s12:Body></s12:Envelope>')
    bodies = {'empty': b'', 'fault': fault, 'text': b'Service Unavailable', 'blank': b' '}
    for status in (200, 202, 204, 301, 400, 401, 404, 500, 503):
        for bname, body in bodies.items():
            if status == 204 and body:
                continue
            ctx.transition()
            ctx.evals()
            ctx.trace()
            raw = (f'HTTP/1.1 {status} X\r\nContent-Length: {len(body)}\r\nContent-Type: application/soap+xml\r\n\r\n').encode() + body
            from sdc11073.definitions_sdc import SdcV1Definitions
            from sdc11073.pysoap.msgreader import MessageReader
            log = loghelper.get_logger_adapter('verif.c08')
            client = SoapClient('10.0.1.1:7001', 1, log, None, SdcV1Definitions,
                                MessageReader(SdcV1Definitions, None, log, validate=False),
                                supported_encodings=[], request_encodings=[])

            class Conn:
                sock = object()

                def request(self, *a, **k):
                    pass

                def getresponse(self, raw=raw):
                    return resp(raw)

                def close(self):
                    pass
            client._http_connection = Conn()
            outcome = 'returned'
            try:
                client._send_soap_request('/notify/A', b'<n/>', 'verif')
            except HTTPReturnCodeError:
                outcome = 'http-error-reported'
            except Exception as ex:  # noqa: BLE001
                outcome = f'raised-{type(ex).__name__}'
            ctx.outcome(f'transport-status:{status // 100}xx:{outcome}')
            ctx.state(h64(('c08-status', status, bname)))
            if status >= 300 and outcome == 'returned':
                ctx.violation(f'transport/http-error-answer-taken-as-delivered/{status}/{bname}-body',
                              {'status': status, 'body': bname, 'outcome': outcome}, case={'kind': 'transport-status'})
            if status < 300 and outcome != 'returned':
                ctx.violation(f'transport/success-answer-reported-as-failure/{status}/{bname}-body',
                              {'status': status, 'body': bname, 'outcome': outcome}, case={'kind': 'transport-status'})


def run(ctx):
    evs = events(ctx.quick)
    depth = 4 if ctx.quick else 6
    managers = MANAGERS
    ctx.rule = ('BFS to depth %d over %d events (Subscribe with expires omitted/5/99, Renew, GetStatus, Unsubscribe, the same three '
                'naming an unknown identifier, metric/alert report, clock ticks 2 s/4 s, one real housekeeping pass, delivery fault '
                'mode per subscriber, stop_all with/without end messages) for 2 subscribers (A with EndTo and both actions, B without '
                'EndTo and one action) on each of 4 subscription managers; states merged on (reference model, fault modes, '
                'subscription table projection). distinct_nontrivial = distinct canonical states' % (depth, len(evs)))
    for mgr_name in ctx.rotate(list(managers)):
        _bfs(ctx, mgr_name, evs, depth, 'full')
    # deep pass with one subscriber: failure - clean-up - re-subscribe cycles need 7-8 events
    deep = [('sub', 'A', None), ('fault', 'A', 'refused'), ('fault', 'A', 'notconnected'), ('fault', 'A', 'ok'),
            ('report', 'metric'), ('housekeeping',), ('tick', 2), ('unsub', 'A', None)]
    for mgr_name in (('path-sync', 'path-async') if ctx.quick else managers):
        _bfs(ctx, mgr_name, deep, 8 if ctx.quick else 10, 'deep')
    del ctx.emitted[:]
    _transport_status(ctx)
    from mcx.checks import c08_sched
    for sim in _SIMS.values():
        sim.w.close()
    _SIMS.clear()
    c08_sched.run(ctx)
    del ctx.emitted[:]
    ctx.sample({'history': [['sub', 'A', 5], ['tick', 4], ['tick', 2], ['report', 'metric']]})
    ctx.sample({'history': [['sub', 'B', None], ['fault', 'B', 'refused'], ['report', 'metric'], ['report', 'metric']]})
    ctx.assumptions.append('notifications are counted as "sent" when the provider hands them to the subscriber-facing SOAP client '
                           '(POST attempt on the loop-back wire), also when the delivery then fails')
    ctx.assumptions.append('expiry instants are never hit exactly: expires in {5, 11, 15} s, ticks of 2 s and 4 s')


def replay(ctx, case):
    if case.get('kind') == 'transport-status':
        _transport_status(ctx)
        return {'violations': sorted(ctx.violations)[:10]}
    if case.get('kind') == 'race':
        from mcx.checks import c08_sched
        return c08_sched.replay(ctx, case)
    sim = Sim(case['manager'])
    out = []
    for ev in case['history']:
        st, probs = sim.event(tuple(ev))
        out.append([list(map(str, ev)), st, probs[:2]])
        if probs:
            ctx.violation(f'{case["manager"]}/{_classify(probs[0])}', probs[:3])
            break
    sim.w.close()
    return out
