"""C06 - consumer MDIB never regresses under lost, duplicated or reordered reports; reload restores the mirror."""
from __future__ import annotations

import copy
import itertools

from lxml import etree

from mcx import alphabet as A
from mcx import canon, sched, world
from mcx.checks import c04
from mcx.runner import h64

PROPERTY = 'C06'
TECHNIQUE = ('exhaustive enumeration of delivery sequences (every report 0, 1 or 2 times, any order) for bounded provider '
             'histories on the real consumer stack; explicit histories with SequenceId/InstanceId changes and reloads; '
             'preemption-bounded schedule exploration of initial load / reload against concurrent report delivery')

HISTORIES = [
    ['metric(N1,1)', 'metric(N1,2)'],
    ['metric(N1,1)', 'alert-cond(on)'],
    ['patient-new(A)', 'patient-update-first(X)'],
    ['location(1)', 'location(2)'],
    ['create-metric', 'update-descr(NEW)'],
    ['create-metric', 'delete(NEW)'],
    ['update-descr+state(N1)', 'metric(N1,1)'],
    ['delete-entity(N1)', 'metric(N2,1)'],
    ['update-context-descr', 'patient-new(A)'],
    ['rt(1,2,3)', 'rt(4)'],
    ['component(vmd0,on)', 'operational(dis)'],
    ['create-channel+metric', 'delete(ch1)'],
    ['update-cond-signaled', 'update-alert-source'],
    ['parent+child(child-first)', 'metric(N1,1)'],
    ['metric(N1,1)', 'create-metric', 'metric(N1,2)'],
    ['patient-new(A)', 'patient-new(B)', 'patient-disassociate'],
    # a report with an update part (indexed attribute) followed by a create part: when the preceding delete was lost,
    # the create part is rejected in the middle of the report
    ['create-metric', 'delete(NEW)', 'update-cond-signaled+create-metric'],
    ['create-metric', 'delete(NEW)', 'update-alert-source+create-metric'],
]
MAJOR = ('mdib_lock', '_tr_lock', 'buffered_notifications')


# ------------------------------------------------------------------ consumer state save / restore
def save_consumer(m):
    return {
        'descr': [(d.parent_handle, copy.deepcopy(d)) for d in m.descriptions.objects],
        'states': [_cp_state(s) for s in m.states.objects],
        'ctx': [_cp_state(s) for s in m.context_states.objects],
        'version': (m.mdib_version, m.sequence_id, m.instance_id),
    }


def _cp_state(s):
    dc = s.descriptor_container
    s.descriptor_container = None
    c = copy.deepcopy(s)
    s.descriptor_container = dc
    return c


def restore_consumer(m, saved):
    from sdc11073.mdib.consumermdib import ConsumerMdibState
    with m.mdib_lock:
        m.descriptions.clear()
        m.states.clear()
        m.context_states.clear()
        m.descriptions.handle_version_lookup.clear()
        m.states.handle_version_lookup.clear()
        m.context_states.handle_version_lookup.clear()
        m.rt_buffers.clear()
        descrs = [copy.deepcopy(d) for _, d in saved['descr']]
        for d in descrs:
            m.descriptions.add_object_no_lock(d)
        by_handle = {d.Handle: d for d in descrs}
        for s in saved['states']:
            c = copy.deepcopy(s)
            c.descriptor_container = by_handle.get(c.DescriptorHandle)
            m.states.add_object_no_lock(c)
        for s in saved['ctx']:
            c = copy.deepcopy(s)
            c.descriptor_container = by_handle.get(c.DescriptorHandle)
            m.context_states.add_object_no_lock(c)
        m.mdib_version, seq, inst = saved['version']
        m.sequence_id = seq
        m.instance_id = inst
        m._state = ConsumerMdibState.initialized
        del m._buffered_notifications[:]


# ------------------------------------------------------------------ (a) fault sequences
class Capture:
    """World in which notifications to the consumer are captured instead of delivered."""

    def __init__(self, history):
        self.w = world.World()
        self.p = self.w.mk_provider()
        self.c = self.w.mk_consumer(self.p)
        self.m = self.w.mk_consumer_mdib(self.c)
        self.netloc = f'{self.c.verif_owner.ip}:9000'
        self.server = self.w.wire.servers[self.netloc]
        self.saved = save_consumer(self.m)
        self.snap0 = canon.snapshot(self.m, with_lookup=False)
        self.captured = []
        self.psnaps = [canon.snapshot(self.p.mdib, with_lookup=False)]
        self.w.wire.intercept = self._intercept
        for name in history:
            A.apply(self.p, name)
            world.ENV.now += 1.0
            self.psnaps.append(canon.snapshot(self.p.mdib, with_lookup=False))
        self.w.wire.intercept = None
        # published canonical states per key
        self.published = {}
        for s in self.psnaps:
            for k, c in canon.content(s).items():
                self.published.setdefault(k, set()).add(c)

    def _intercept(self, client, path, data, msg):
        if client.netloc == self.netloc:
            root = c04.parse_body(data)
            v = int(root.get('MdibVersion')) if root is not None and root.get('MdibVersion') else None
            self.captured.append((path, data, v, etree.QName(root).localname if root is not None else '?'))
            return ('respond', 202, b'')
        return None

    def deliver(self, i):
        path, data, v, name = self.captured[i]
        try:
            status, reason, body = self.server.handle_post(path, data, world.mk_headers({'Host': self.netloc}), ('10.0.0.1', 40000))
        except Exception as ex:  # noqa: BLE001  nothing may escape the consumer's message converter
            return f'exception escaped the consumer endpoint: {ex!r}'
        return None


def _versions(snap):
    out = {}
    for k, c in canon.content(snap).items():
        items = dict(c[1])
        out[k] = items.get('DescriptorVersion' if k[0] == 'd' else 'StateVersion') or 0
    return out


def check_delivery_sequence(cap, seq):
    """Deliver captured messages in order `seq` (indices); return None or (kind, detail)."""
    restore_consumer(cap.m, cap.saved)
    if canon.snapshot(cap.m, with_lookup=False) != cap.snap0:
        raise RuntimeError('harness: restore did not reproduce the initial consumer snapshot')
    prev = cap.snap0
    delivered = []
    for i in seq:
        path, data, v, name = cap.captured[i]
        err = cap.deliver(i)
        now = canon.snapshot(cap.m, with_lookup=False)
        if err:
            return ('exception-escaped', {'message': name, 'error': err})
        stale = v is not None and prev['mdib_version'] is not None and v < prev['mdib_version']
        dup = i in delivered
        if now['mdib_version'] < prev['mdib_version']:
            return ('mdib-version-went-backwards', {'from': prev['mdib_version'], 'to': now['mdib_version'], 'message': name})
        vb, va = _versions(prev), _versions(now)
        for k in vb:
            if k in va and va[k] < vb[k]:
                return ('entity-version-went-backwards', {'entity': str(k), 'from': vb[k], 'to': va[k], 'message': f'{name} v{v}'})
        if stale and now != prev:
            return ('stale-report-changed-mdib', {'message': f'{name} v{v}', 'consumer_version': prev['mdib_version'],
                                                  'diff': canon.diff(prev, now)[:2]})
        if dup and not stale and now != prev:
            # a duplicate of a message that was already applied at this version must not change anything
            if delivered and v == prev['mdib_version']:
                return ('duplicated-report-changed-mdib', {'message': f'{name} v{v}', 'diff': canon.diff(prev, now)[:2]})
        scan = canon.mdib_scan(cap.m)
        if scan:
            return ('lookups-inconsistent', {'message': f'{name} v{v}', 'problems': scan[:3]})
        for k, c in canon.content(now).items():
            if c not in cap.published.get(k, ()):
                return ('state-never-published-by-provider', {'entity': str(k), 'after': f'{name} v{v}'})
        delivered.append(i)
        prev = now
    # complete in-order delivery => exact mirror
    if list(seq) == list(range(len(cap.captured))):
        d = canon.diff(cap.psnaps[-1], prev)
        if d:
            return ('in-order-delivery-not-mirrored', {'diff': d[:3]})
    return None


def delivery_sequences(n, quick):
    """All sequences over range(n) in which each index occurs at most twice, of length <= n + 1."""
    out = []
    maxlen = n + 1
    pool = list(range(n))

    def rec(prefix, counts):
        out.append(list(prefix))
        if len(prefix) >= maxlen:
            return
        for i in pool:
            if counts[i] < 2:
                counts[i] += 1
                prefix.append(i)
                rec(prefix, counts)
                prefix.pop()
                counts[i] -= 1
    rec([], [0] * n)
    return out


def _fault_work(acc, arg):
    hi, history, chunk, nchunks, full = arg
    cap = Capture(history)
    n = len(cap.captured)
    k = min(n, 5 if full else 4)
    seqs = delivery_sequences(k, quick=True)
    if n > k:
        # longer wire lists: all sequences over the first 4 messages plus every drop/duplicate/swap of the full list
        base = list(range(n))
        extra = [base]
        for i in range(n):
            extra.append(base[:i] + base[i + 1:])
            extra.append(base[:i + 1] + [i] + base[i + 1:])
            extra.append(base + [i])
        for i in range(n - 1):
            sw = list(base)
            sw[i], sw[i + 1] = sw[i + 1], sw[i]
            extra.append(sw)
        seqs = seqs + extra
    seqs = [s for j, s in enumerate(seqs) if j % nchunks == chunk]
    acc.state(h64(('hist', tuple(history))))
    for seq in seqs:
        acc.transition(len(seq))
        acc.trace()
        acc.evals()
        res = check_delivery_sequence(cap, seq)
        acc.state(h64((tuple(history), tuple(seq))))
        if res is not None:
            kind, detail = res
            names = [f'{cap.captured[i][3]}@v{cap.captured[i][2]}' for i in seq]
            small = _min_seq(cap, seq, kind)
            snames = [f'{cap.captured[i][3]}@v{cap.captured[i][2]}' for i in small]
            acc.violation(f'delivery/{kind}/{">".join(history)}/{",".join(snames)}',
                          {'provider_history': history, 'delivered': snames, 'detail': detail, 'found_in': names},
                          case={'kind': 'delivery', 'history': history, 'sequence': small})
        else:
            acc.nontrivial(h64((tuple(history), tuple(seq))))
    if len(acc.samples) < 3 and seqs:
        s = seqs[len(seqs) // 2]
        acc.sample({'provider_history': history, 'wire_messages': [f'{c[3]}@v{c[2]}' for c in cap.captured], 'delivered_indices': s})


def _min_seq(cap, seq, kind):
    cur = list(seq)
    changed = True
    while changed and len(cur) > 1:
        changed = False
        for i in range(len(cur)):
            cand = cur[:i] + cur[i + 1:]
            r = check_delivery_sequence(cap, cand)
            if r is not None and r[0] == kind:
                cur = cand
                changed = True
                break
    return cur


# ------------------------------------------------------------------ (b) sequence / instance id change
RESTART_EVENTS = ['metric(N1,1)', 'alert-cond(on)', 'patient-new(A)', 'create-metric', 'update-descr(N1)', 'location(1)']


def run_restart_case(case):
    """case = (events before, what changes, events after the change, events after reload)."""
    before, what, after, later = case
    w = world.World()
    p = w.mk_provider()
    inst_from = inst_to = None
    if what.startswith('instance:'):
        # an InstanceId-only change between two given values (absent, 0, 1, 2^40) with the SequenceId unchanged
        inst_from, inst_to = (None if x == 'absent' else int(x) for x in what.split(':')[1].split('>'))
        p.mdib.instance_id = inst_from
    c = w.mk_consumer(p)
    m = w.mk_consumer_mdib(c)
    world.ENV.inline_thread_targets = {'_set_observable'}
    fired = []
    from sdc11073 import observableproperties as op
    op.strongbind(m, sequence_or_instance_id_changed_event=fired.append)
    for e in before:
        A.apply(p, e)
    d = canon.diff(canon.snapshot(p.mdib, with_lookup=False), canon.snapshot(m, with_lookup=False))
    if d:
        return ('not-mirrored-before-change', d[:2])
    frozen = canon.snapshot(m, with_lookup=False)
    if what == 'sequence':
        p.mdib.sequence_id = world._uuid4().urn
    elif what == 'instance':
        p.mdib.instance_id = (p.mdib.instance_id or 0) + 1
    elif what.startswith('instance:'):
        p.mdib.instance_id = inst_to
    else:
        p.mdib.sequence_id = world._uuid4().urn
        p.mdib.instance_id = (p.mdib.instance_id or 0) + 1
    applied_after = 0
    for e in after:
        if A.apply(p, e) == 'ok':
            applied_after += 1
        now = canon.snapshot(m, with_lookup=False)
        if now != frozen:
            return ('updated-after-id-change-before-reload', {'event': e, 'diff': canon.diff(frozen, now)[:2]})
    if applied_after and not fired:
        return ('id-change-not-signalled', {})
    m.reload_all()
    d = canon.diff(canon.snapshot(p.mdib, with_lookup=False), canon.snapshot(m, with_lookup=False))
    if d:
        return ('not-mirrored-after-reload', d[:2])
    for e in later:
        A.apply(p, e)
        d = canon.diff(canon.snapshot(p.mdib, with_lookup=False), canon.snapshot(m, with_lookup=False))
        if d:
            return ('not-mirrored-after-reload', {'event': e, 'diff': d[:2]})
    scan = canon.mdib_scan(m)
    if scan:
        return ('lookups-inconsistent-after-reload', scan[:2])
    return None


def _restart_work(acc, case):
    acc.trace()
    acc.evals()
    acc.transition(len(case[0]) + len(case[2]) + len(case[3]) + 1)
    acc.state(h64(('restart', str(case))))
    res = run_restart_case(case)
    if res is not None:
        acc.violation(f'id-change/{res[0]}/{case[1]}/{">".join(case[0])}|{">".join(case[2])}', {'case': [list(case[0]), case[1], list(case[2]), list(case[3])], 'detail': res[1]},
                      case={'kind': 'restart', 'case': [list(case[0]), case[1], list(case[2]), list(case[3])]})
    else:
        acc.nontrivial(h64(str(case)))


# ------------------------------------------------------------------ (b2) two consumer MDIBs in one process
def run_two_mdibs_case(case):
    """case = (event committed while A's GetMdib answer is on its way, what the other MDIB does meanwhile).
    Consumer 1 loads its MDIB A; its GetMdib is answered at version n; before the answer arrives the provider commits n+1
    (the report is buffered by A, applied by the already running MDIB B of consumer 2) and B does something of its own
    (reload_all / nothing). A must end as an exact mirror: what B does is none of A's business."""
    event, b_action = case
    w = world.World()
    p = w.mk_provider()
    c1 = w.mk_consumer(p, ip='10.0.0.2')
    c2 = w.mk_consumer(p, ip='10.0.0.3')
    b = w.mk_consumer_mdib(c2)
    from sdc11073.mdib.consumermdib import ConsumerMdib
    a = ConsumerMdib(c1)
    state = {'armed': True}

    def intercept(client, path, data, msg):  # noqa: ARG001
        if not state['armed'] or client.owner is not c1.verif_owner or b'GetMdib' not in data or b'GetMdibResponse' in data:
            return None
        state['armed'] = False
        server = w.wire.servers[client.netloc]
        status, _reason, body = server.handle_post(path, data, client._headers(), client.sock_name)
        A.apply(p, event)                      # committed after the answer was built
        if b_action == 'reload':
            b.reload_all()
        return ('respond', status, body)
    w.wire.intercept = intercept
    try:
        a.init_mdib()
    except Exception as ex:  # noqa: BLE001
        return ('load-raised', repr(ex)[:200])
    finally:
        w.wire.intercept = None
    ps = canon.snapshot(p.mdib, with_lookup=False)
    for who, m in (('A', a), ('B', b)):
        d = canon.diff(ps, canon.snapshot(m, with_lookup=False))
        if d:
            return (f'mdib-{who}-not-mirrored-after-load', d[:2])
    A.apply(p, 'metric(N1,2)')
    d = canon.diff(canon.snapshot(p.mdib, with_lookup=False), canon.snapshot(a, with_lookup=False))
    if d:
        return ('mdib-A-not-mirrored-after-next-report', d[:2])
    w.close()
    return None


def _two_mdibs_work(acc, case):
    acc.trace()
    acc.evals()
    acc.transition(4)
    acc.state(h64(('two-mdibs', str(case))))
    res = run_two_mdibs_case(case)
    acc.outcome(f'two-mdibs:{case[1]}:{"ok" if res is None else res[0]}')
    if res is not None:
        acc.violation(f'two-mdibs/{res[0]}/{case[0]}/{case[1]}', {'case': list(case), 'detail': res[1]},
                      case={'kind': 'two-mdibs', 'case': list(case)})
    else:
        acc.nontrivial(h64(('two-mdibs', str(case))))


# ------------------------------------------------------------------ (c) load / reload race (engine S)
class SchedQueue:
    """FIFO whose get() blocks the (scheduled) caller while it is empty; put() is a scheduling point."""

    def __init__(self, s):
        self.s = s
        self.items = []
        self.name = 'notification-queue'
        self.closed = False

    def _acquirable_by(self, t):
        return bool(self.items) or self.closed

    def put(self, item):
        self.items.append(item)
        self.s.point('queue-put')

    def close(self):
        self.closed = True
        self.s.point('queue-close')

    def get(self):
        t = self.s.me()
        t.waiting_for = self
        self.s.point('queue-get')
        t.waiting_for = None
        if self.items:
            return self.items.pop(0)
        return None


def _weight(label):
    return 1 if any(mj in label for mj in MAJOR) or label.startswith('queue') else 2


# statement-granularity pass: every statement of the consumer MDIB code (load, buffering, report processing) is a
# scheduling point, so that a check-then-act on state that lost its lock is visible without a lock operation in between
LINE_ANCHORS = sched.LineAnchors([('mdib/consumermdib.py', '*'), ('mdib/consumermdibxtra.py', '*')])


def _line_weight(label):
    return 1 if label.startswith('line:') or label.startswith('queue') or any(mj in label for mj in MAJOR) else 99


class RaceRun:
    def __init__(self, scenario, prefix, all_points=False):
        self.scenario = scenario
        mode, events = scenario
        self.s = sched.Scheduler(prefix)
        if all_points == 'lines':
            self.s.line_anchors = LINE_ANCHORS
        elif not all_points:
            self.s.point_filter = lambda label: any(mj in label for mj in MAJOR)
        world.install()
        w = world.World()
        world.ENV.sched = self.s
        try:
            self.w = w
            self.p = w.mk_provider()
            if mode.endswith('-noctx'):
                # the provider leaves the context states out of GetMdib: the consumer fetches them with a second request
                self.p.contextstates_in_getmdib = False
                mode = mode[:-6]
            self.c = w.mk_consumer(self.p)
            from sdc11073.mdib.consumermdib import ConsumerMdib
            self.m = ConsumerMdib(self.c)
            if mode == 'reload':
                self.m.init_mdib()
        except BaseException:
            world.ENV.sched = None
            raise
        self.netloc = f'{self.c.verif_owner.ip}:9000'
        self.server = w.wire.servers[self.netloc]
        self.q = SchedQueue(self.s)
        w.wire.intercept = self._intercept
        self.errors = []

        def writer():
            for e in events:
                A.EVENT_BY_NAME[e](self.p)
            self.q.close()

        def deliverer():
            while True:
                item = self.q.get()
                if item is None:
                    return
                path, data = item
                try:
                    self.server.handle_post(path, data, world.mk_headers({'Host': self.netloc}), ('10.0.0.1', 40000))
                except Exception as ex:  # noqa: BLE001
                    self.errors.append(repr(ex)[:200])

        def loader():
            if mode == 'reload':
                self.m.reload_all()
            else:
                self.m.init_mdib()
        self.s.spawn(writer, 'W:provider')
        self.s.spawn(deliverer, 'N:deliver')
        self.s.spawn(loader, f'L:{mode}')

    def _intercept(self, client, path, data, msg):
        if client.netloc == self.netloc and self.s.me() is not None and self.s.me().name.startswith('W'):
            self.q.put((path, data))   # the HTTP endpoint accepts the notification, processing is deferred
            return ('respond', 202, b'')
        return None

    def go(self):
        try:
            self.s.run()
        finally:
            world.ENV.sched = None
        return self

    def judge(self):
        problems = []
        for t in self.s.threads:
            if t.exc is not None:
                problems.append((f'thread-raised/{t.name}', repr(t.exc)[:200]))
        if isinstance(self.s.error, sched.Deadlock):
            problems.append(('deadlock', str(self.s.error)[:200]))
        for e in self.errors:
            problems.append(('delivery-raised', e))
        if not problems:
            d = canon.diff(canon.snapshot(self.p.mdib, with_lookup=False), canon.snapshot(self.m, with_lookup=False))
            if d:
                problems.append(('not-mirrored-after-load', d[:3]))
            scan = canon.mdib_scan(self.m)
            if scan:
                problems.append(('lookups-inconsistent-after-load', scan[:2]))
        return problems


RACE_SCENARIOS = [
    ('init', ['metric(N1,1)']),
    ('reload', ['metric(N1,1)']),
    ('init', ['metric(N1,1)', 'metric(N1,2)']),
    ('reload', ['metric(N1,1)', 'alert-cond(on)']),
    ('init', ['patient-new(A)']),
    ('reload', ['location(1)']),
    ('init', ['create-metric']),
    ('reload', ['create-metric', 'metric(N1,1)']),
    ('reload', ['update-descr+state(N1)']),
    ('init', ['delete(N2)']),
    ('init-noctx', ['metric(N1,1)']),
    ('reload-noctx', ['location(1)']),
    ('init-noctx', ['patient-new(A)', 'metric(N1,1)']),
]


def _race_key(a):
    return f'{a[0][0]} || ' + '>'.join(a[0][1]) + f' /bound={a[1]}/{"statements" if a[3] == "lines" else "all" if a[3] else "major"}'


def _race_work(acc, job):
    arg, start, expand_only = job
    scenario, bound, cap, all_points = arg
    name = _race_key(arg)
    found = {}
    _weight = _line_weight if all_points == 'lines' else globals()['_weight']

    def one(prefix):
        r = RaceRun(scenario, prefix, all_points).go()
        problems = r.judge()
        if all_points == 'lines':
            acc.add('statement-points', r.s.line_points)
        return r.s.trace, (tuple(p[0] for p in problems), problems, r.s.choices(), r.m.mdib_version)

    def on_exec(prefix, trace, payload):
        kinds, problems, choices, version = payload
        acc.transition(len(trace))
        acc.trace()
        acc.evals()
        acc.add(f'schedules[race {name}]')
        acc.outcome(f'race:{name}:{"ok" if not kinds else "+".join(kinds)}:consumer-version={version}')
        acc.state(h64(('race', name, tuple(choices))))
        acc.nontrivial(h64(('race', name, kinds, version)))
        for kind, detail in problems:
            if kind not in found:
                found[kind] = (detail, choices, sched.preemptions(trace))

    if expand_only:
        n, kids = sched.explore(one, bound, on_execution=on_exec, weight=_weight, start=[[]], depth_limit=0)
        acc.emit((name, kids))
    else:
        n, capped = sched.explore(one, bound, max_executions=cap, on_execution=on_exec, weight=_weight, start=start)
        if capped:
            acc.cap(f'race[{name}]', f'a subtree was stopped after {n} schedules')
    for kind, (detail, choices, pre) in found.items():
        acc.violation(f'load-race/{kind}/{scenario[0]} || {">".join(scenario[1])}',
                      {'scenario': name, 'detail': detail, 'schedule': choices, 'preemptions': pre},
                      case={'kind': 'race', 'scenario': [scenario[0], list(scenario[1])], 'schedule': choices, 'all_points': all_points})
    if len(acc.samples) < 5 and expand_only:
        acc.sample({'race': name, 'first_level_alternatives': len(kids)})


# ------------------------------------------------------------------ entry
def run(ctx):
    ctx.rule = ('(a) for %d provider histories: the notifications on the wire are captured and every delivery sequence in which each of '
                'the first 4-5 messages occurs 0, 1 or 2 times in any order (length <= n+1; for longer wire lists additionally every '
                'single drop / duplicate / adjacent swap / replay of the full list) is delivered to the real consumer endpoint; after '
                'every delivery: versions non-decreasing, stale and duplicated reports change nothing, lookups consistent, every state '
                'held was published by the provider, complete in-order delivery mirrors exactly; (b) SequenceId / InstanceId changes '
                'followed by reports and reload_all; (c) init_mdib / reload_all racing with deferred in-order delivery and a writing '
                'provider under the schedule explorer. distinct_nontrivial = delivery sequences / cases without violation')
    hs = HISTORIES if not ctx.quick else HISTORIES[:9] + HISTORIES[-2:-1]
    nch = 4
    jobs = [(i, h, c, nch, not ctx.quick) for i, h in enumerate(hs) for c in range(nch)]
    ctx.pmap(_fault_work, ctx.rotate(jobs), chunksize=1)
    cases = []
    for what in ('sequence', 'instance', 'both'):
        for b in ([], ['metric(N1,1)'], ['create-metric']):
            for a in [[e] for e in RESTART_EVENTS] + [['metric(N1,1)', 'alert-cond(on)'], ['create-metric', 'metric(N1,2)']]:
                cases.append((tuple(b), what, tuple(a), ('metric(N1,2)', 'patient-new(B)')))
    inst_values = ('absent', '0', '1', str(2 ** 40))
    for x in inst_values:
        for y in inst_values:
            if x != y:
                for a in (('metric(N1,1)',), ('patient-new(A)',), ('create-metric',)):
                    cases.append(((), f'instance:{x}>{y}', a, ('metric(N1,2)',)))
    ctx.pmap(_restart_work, ctx.rotate(cases), chunksize=2)
    two = [(e, act) for e in ('metric(N1,1)', 'patient-new(A)', 'create-metric') for act in ('reload', 'nothing')]
    ctx.pmap(_two_mdibs_work, two, chunksize=1)
    bound = 1 if ctx.quick else 3
    if ctx.quick:
        rjobs = [(s, 1, 3000, False) for s in RACE_SCENARIOS[:8]] + [(RACE_SCENARIOS[1], 2, 3000, False)]
        rjobs += [(s, 1, 3000, 'lines') for s in RACE_SCENARIOS[1:2]]
        rjobs += [(s, 1, 3000, False) for s in RACE_SCENARIOS[10:12]]
    else:
        # the cap is per subtree group (see sched.run_partitioned): budgets chosen for about a quarter of an hour
        rjobs = [(s, 3 if len(s[1]) == 1 else 2, 1500, False) for s in RACE_SCENARIOS]
        rjobs += [(s, 2, 1500, True) for s in RACE_SCENARIOS[:4]]
        rjobs += [(s, 1, 3000, 'lines') for s in RACE_SCENARIOS]
    sched.run_partitioned(ctx, _race_work, ctx.rotate(rjobs), _race_key, group=6)
    ctx.note('bounds', {'histories': len(hs), 'restart_cases': len(cases), 'race_scenarios': len(rjobs), 'preemption_bound': bound})
    ctx.assumptions.append('the consumer MDIB is restored between delivery sequences by re-inserting deep copies of the tables taken '
                           'after the initial load (self-checked against the initial canonical snapshot on every restore)')
    ctx.assumptions.append('a provider restart is modelled by assigning a new SequenceId / InstanceId to the provider MDIB')
    ctx.assumptions.append('(c) models deferred dispatching: the endpoint accepts a notification (queue) and a delivery thread applies '
                           'notifications in order; preemptions at table locks cost 2, at mdib / buffer locks and queue operations 1')


def replay(ctx, case):
    if case['kind'] == 'delivery':
        cap = Capture(case['history'])
        res = check_delivery_sequence(cap, case['sequence'])
        if res:
            ctx.violation(f'delivery/{res[0]}', res[1])
        return {'result': None if res is None else [res[0], str(res[1])[:300]]}
    if case['kind'] == 'two-mdibs':
        res = run_two_mdibs_case(tuple(case['case']))
        if res:
            ctx.violation(f'two-mdibs/{res[0]}', res[1])
        return {'result': None if res is None else [res[0], str(res[1])[:300]]}
    if case['kind'] == 'restart':
        c = case['case']
        res = run_restart_case((tuple(c[0]), c[1], tuple(c[2]), tuple(c[3])))
        if res:
            ctx.violation(f'id-change/{res[0]}', res[1])
        return {'result': None if res is None else [res[0], str(res[1])[:300]]}
    sc = (case['scenario'][0], case['scenario'][1])
    r = RaceRun(sc, case['schedule'], case.get('all_points', False)).go()
    problems = r.judge()
    for kind, detail in problems:
        ctx.violation(f'load-race/{kind}', detail)
    return {'problems': [p[0] for p in problems]}
