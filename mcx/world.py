"""Loop-back world: real SdcProvider / SdcConsumer objects connected by an in-memory wire.

Nothing here models the library: the only stand-ins are the transport (LoopSoapClient instead of
http.client, FakeHttpServer instead of the threaded HTTP server, FakeWsDiscovery) and the sources of
nondeterminism (clock, uuid4, random, Thread.start), which the harness owns.
"""
from __future__ import annotations

import asyncio
import asyncio.base_events

import http.client
import importlib
import pkgutil
import random as _real_random
import sys
import threading as _real_threading
import time as _real_time
import types
import uuid as _real_uuid
from pathlib import Path

from mcx.runner import REPO, HarnessError

T0 = 1_700_000_000.0


# --------------------------------------------------------------------------------------------
# owned nondeterminism
class _Env:
    """Per-process singleton that all fakes read; reset() at the start of every build()."""

    def __init__(self):
        self.reset()

    def reset(self):
        self.now = T0
        self.uuid_counter = 0
        self.threads = []          # every Thread object the library created (never started unless inline)
        self.inline_thread_targets = set()   # substrings of target names that are run synchronously on start()
        self.sleep_hook = None     # callable(seconds) or None -> advance the clock
        self.random_hook = None    # callable(kind, a, b) -> value
        self.time_autostep = 0.0   # every read of the clock advances it by this much
        self.sched = None          # engine S: the active Scheduler (locks created while it is set are instrumented)


ENV = _Env()


def _now():
    t = ENV.now
    if ENV.time_autostep:
        ENV.now = t + ENV.time_autostep
    return t


def _sleep(seconds=0):
    if ENV.sched is not None and ENV.sched.me() is not None:
        if ENV.sleep_hook is not None:
            ENV.sleep_hook(seconds)
        else:
            ENV.now += max(0.0, float(seconds))
        ENV.sched.point('sleep')
        return
    if ENV.sleep_hook is not None:
        ENV.sleep_hook(seconds)
    else:
        ENV.now += max(0.0, float(seconds))


MONO_OFFSET = T0 - 54321.0     # time.monotonic() and time.perf_counter() are different clocks than time.time():
PERF_OFFSET = T0 - 987.0       # mixing them up must be visible


def _mono():
    return _now() - MONO_OFFSET


def _perf():
    return _now() - PERF_OFFSET


FAKE_TIME = types.SimpleNamespace(
    time=_now, monotonic=_mono, perf_counter=_perf, sleep=_sleep,
    time_ns=lambda: int(_now() * 1e9), monotonic_ns=lambda: int(_mono() * 1e9),
    strftime=_real_time.strftime, gmtime=_real_time.gmtime, localtime=_real_time.localtime,
    struct_time=_real_time.struct_time, mktime=_real_time.mktime, ctime=_real_time.ctime,
    timezone=_real_time.timezone, altzone=_real_time.altzone, daylight=_real_time.daylight, tzname=_real_time.tzname,
    __name__='time',
)


def _uuid4():
    ENV.uuid_counter += 1
    return _real_uuid.UUID(int=(0x4D43 << 112) | (4 << 76) | (0x8 << 60) | ENV.uuid_counter)


FAKE_UUID = types.SimpleNamespace(**{k: getattr(_real_uuid, k) for k in dir(_real_uuid) if not k.startswith('__')})
FAKE_UUID.uuid4 = _uuid4
FAKE_UUID.__name__ = 'uuid'


class _FakeRandom:
    def randint(self, a, b):
        if ENV.random_hook:
            return ENV.random_hook('randint', a, b)
        return a

    def randrange(self, a, b=None, step=1):
        if b is None:
            a, b = 0, a
        if ENV.random_hook:
            return ENV.random_hook('randrange', a, b)
        return a

    def random(self):
        return 0.0

    def uniform(self, a, b):  # noqa: ARG002
        return a

    def choice(self, seq):
        return seq[0]


FAKE_RANDOM = _FakeRandom()


class HThread:
    """Thread stand-in for engine H: never runs concurrently. start() records the thread; targets listed in
    ENV.inline_thread_targets run synchronously; everything else is left to explicit explorer events."""

    def __init__(self, group=None, target=None, name=None, args=(), kwargs=None, daemon=None):  # noqa: ARG002
        self._target = target
        self._args = args
        self._kwargs = kwargs or {}
        self.name = name or getattr(target, '__name__', 'thread')
        self.daemon = daemon
        self.started = False
        self.ident = None
        ENV.threads.append(self)

    def start(self):
        self.started = True
        tname = getattr(self._target, '__qualname__', '') or ''
        if any(s in tname or s in (self.name or '') for s in ENV.inline_thread_targets):
            self.run()

    def run(self):
        if self._target is not None:
            self._target(*self._args, **self._kwargs)

    def join(self, timeout=None):
        pass

    def is_alive(self):
        return False

    def setDaemon(self, d):  # noqa: N802
        self.daemon = d


def _lock_factory():
    if ENV.sched is not None:
        from mcx.sched import SchedLock
        return SchedLock(lambda: ENV.sched, _lock_name())
    return _real_threading.Lock()


def _rlock_factory():
    if ENV.sched is not None:
        from mcx.sched import SchedRLock
        return SchedRLock(lambda: ENV.sched, _lock_name())
    return _real_threading.RLock()


def _lock_name():
    import inspect
    try:
        fr = inspect.stack()[2]
        line = (fr.code_context or [''])[0].strip()
        target = line.split('=')[0].strip().replace('self.', '') if '=' in line else fr.function
        return f'{Path(fr.filename).stem}.{target}'
    except Exception:  # noqa: BLE001
        return 'lock'


FAKE_THREADING = types.SimpleNamespace(**{k: getattr(_real_threading, k) for k in dir(_real_threading)
                                          if not k.startswith('__')})
FAKE_THREADING.Thread = HThread
FAKE_THREADING.Lock = _lock_factory
FAKE_THREADING.RLock = _rlock_factory
FAKE_THREADING.__name__ = 'threading'

_installed = False
_lib_modules = []


def import_library():
    """Import every module of sdc11073 and the tutorial role providers from the working tree."""
    global _lib_modules
    if _lib_modules:
        return _lib_modules
    for p in (str(REPO), str(REPO / 'src')):
        if p not in sys.path:
            sys.path.insert(0, p)
    import sdc11073
    import sdc11073.definitions_sdc  # noqa: F401  registers the protocol
    mods = []
    for pkgname in ('sdc11073', 'tutorial.productandroles'):
        pkg = importlib.import_module(pkgname)
        mods.append(pkg)
        for info in pkgutil.walk_packages(pkg.__path__, pkg.__name__ + '.'):
            try:
                mods.append(importlib.import_module(info.name))
            except Exception:  # noqa: BLE001  optional modules
                continue
    where = Path(sdc11073.__file__).resolve()
    if not str(where).startswith(str(REPO.resolve())):
        raise HarnessError(f'sdc11073 imported from {where}')
    _lib_modules = mods
    return mods


def install(threads=True):
    """Rebind time/uuid/random/Thread in every library module (idempotent)."""
    global _installed
    if _installed:
        return
    mods = import_library()
    for mod in mods:
        for attr, val in list(vars(mod).items()):
            if val is _real_time:
                setattr(mod, attr, FAKE_TIME)
            elif val is _real_uuid:
                setattr(mod, attr, FAKE_UUID)
            elif val is _real_random:
                setattr(mod, attr, FAKE_RANDOM)
            elif threads and val is _real_threading:
                setattr(mod, attr, FAKE_THREADING)
            elif threads and val is _real_threading.Thread:
                setattr(mod, attr, HThread)
            elif val is _real_threading.Lock and attr == 'Lock':
                setattr(mod, attr, _lock_factory)
            elif val is _real_threading.RLock and attr == 'RLock':
                setattr(mod, attr, _rlock_factory)
            elif val is _real_time.time and attr == 'time':
                setattr(mod, attr, _now)
            elif val is _real_time.sleep:
                setattr(mod, attr, _sleep)
            elif val is _real_time.monotonic:
                setattr(mod, attr, _mono)
            elif val is _real_time.perf_counter:
                setattr(mod, attr, _perf)
            elif val is _real_uuid.uuid4:
                setattr(mod, attr, _uuid4)
    if threads:
        from sdc11073.provider import sco

        def _worker_start(self):
            ENV.threads.append(self)

        sco._OperationsWorker.start = _worker_start
        sco._OperationsWorker.join = lambda self, timeout=None: None
        # the event loop of the async subscription managers: no real thread (its start-up races with the virtual
        # clock); coroutines run to completion on the caller's thread, which is what run_coro's blocking
        # `.result()` amounts to
        from sdc11073.provider import subscriptionmgr_async as sma

        def _loop_start(self):
            self._running = True
            if not isinstance(self.loop, VirtualLoop):
                if not self.loop.is_closed():
                    self.loop.close()
                self.loop = VirtualLoop()

        def _loop_run_coro(self, coro, timeout=None, *args, **kwargs):  # noqa: ARG001
            # what asyncio.run_coroutine_threadsafe(coro, loop).result(timeout) amounts to, on the virtual clock:
            # the loop runs until the coroutine is done or `timeout` virtual seconds have passed; a coroutine that is
            # not done then stays pending in the loop (and goes on when the loop runs the next time)
            if not self._running:
                coro.close()
                return None
            task = self.loop.create_task(coro)
            self.loop.run_virtual(task, None if timeout is None else ENV.now + timeout)
            if task.done():
                return task.result()
            raise TimeoutError

        def _loop_stop(self):
            self._running = False
            if not self.loop.is_closed():
                if isinstance(self.loop, VirtualLoop):
                    self.loop.run_virtual(None, None)      # let pending deliveries finish
                self.loop.close()

        sma.AsyncioEventLoopThread.start = _loop_start
        sma.AsyncioEventLoopThread.run_coro = _loop_run_coro
        sma.AsyncioEventLoopThread.stop = _loop_stop
    _installed = True


class VirtualLoop(asyncio.base_events.BaseEventLoop):
    """An asyncio event loop without selector and without real time: ready callbacks run in order, and when nothing is
    ready the virtual clock jumps to the next timer. Runs on the caller's thread."""

    def time(self):
        return ENV.now

    def _process_events(self, event_list):  # noqa: ARG002
        pass

    def _write_to_self(self):
        pass

    def run_virtual(self, task, deadline):
        import heapq
        from asyncio import events
        old = events._get_running_loop()
        events._set_running_loop(self)
        try:
            while task is None or not task.done():
                if self._ready:
                    handle = self._ready.popleft()
                    if not handle._cancelled:
                        handle._run()
                    continue
                if self._scheduled:
                    when = self._scheduled[0]._when
                    if deadline is not None and when > deadline:
                        ENV.now = max(ENV.now, deadline)
                        return
                    handle = heapq.heappop(self._scheduled)
                    handle._scheduled = False
                    ENV.now = max(ENV.now, when)
                    if not handle._cancelled:
                        self._ready.append(handle)
                    continue
                return      # nothing left to run
        finally:
            events._set_running_loop(old)


def drain_operations(provider):
    """Run the real worker loop body synchronously until its queue is empty (engine H event)."""
    n = 0
    for reg in provider._sco_operations_registries.values():
        worker = reg._worker
        if worker is None:
            continue
        q = worker._operations_queue
        n += q.qsize()
        q.maxsize += 1          # room for the stop marker even if a burst has filled the queue
        try:
            q.put('stop_sco')
            worker.run()
        finally:
            q.maxsize -= 1
    return n


# --------------------------------------------------------------------------------------------
# transport
class WireMsg:
    __slots__ = ('idx', 'src', 'netloc', 'path', 'data', 'status', 'response', 'action', 'tls')

    def __init__(self, idx, src, netloc, path, data, tls):
        self.idx, self.src, self.netloc, self.path, self.data, self.tls = idx, src, netloc, path, data, tls
        self.status = None
        self.response = None
        self.action = None


class Wire:
    def __init__(self):
        self.servers = {}        # netloc -> FakeHttpServer
        self.log = []            # WireMsg in send order
        self.clients = []        # every LoopSoapClient constructed
        self.intercept = None    # callable(client, path, data) -> None | ('respond', status, bytes) | ('raise', exc)
        self.connect_hook = None  # callable(client) -> None | raise
        self.delay_hook = None    # callable(client, path) -> virtual seconds an async delivery takes (None/0: immediate)

    def register(self, server):
        self.servers[server.netloc] = server

    def post(self, client, path, data, headers):
        msg = WireMsg(len(self.log), client.owner, client.netloc, path, data, client.ssl_context is not None)
        self.log.append(msg)
        if self.intercept is not None:
            verdict = self.intercept(client, path, data, msg)
            if verdict is not None:
                kind = verdict[0]
                if kind == 'raise':
                    raise verdict[1]
                if kind == 'respond':
                    msg.status, msg.response = verdict[1], verdict[2]
                    return verdict[1], 'intercepted', verdict[2]
        server = self.servers.get(client.netloc)
        if server is None:
            raise ConnectionRefusedError(f'no server at {client.netloc}')
        status, reason, body = server.handle_post(path, data, headers, client.sock_name)
        msg.status, msg.response = status, body
        return status, reason, body

    def get(self, client, path, headers):
        server = self.servers.get(client.netloc)
        if server is None:
            raise ConnectionRefusedError(f'no server at {client.netloc}')
        return server.handle_get(path, headers, client.sock_name)


class _Registry:
    def __init__(self):
        self.instances = {}

    def register_instance(self, key, instance):
        self.instances[key] = instance

    def get_instance(self, key):
        from sdc11073.exceptions import InvalidPathError
        inst = self.instances.get(key)
        if inst is None:
            raise InvalidPathError(reason=f'{key} not found', soap_fault=None)
        return inst


class FakeHttpServer:
    """Stands in for HttpServerThreadBase: only what SdcProvider/SdcConsumer use."""

    def __init__(self, wire, ip, port, scheme='http'):
        self.wire = wire
        self.ip, self.port, self.scheme = ip, port, scheme
        self.netloc = f'{ip}:{port}'
        self.dispatcher = _Registry()
        self.server_port = port
        self.base_url = f'{scheme}://{ip}:{port}/'
        self.started_evt = _real_threading.Event()
        self.started_evt.set()
        self.supported_encodings = []
        self.chunk_size = 0
        wire.register(self)

    def start(self):
        pass

    def stop(self):
        pass

    @staticmethod
    def _first(path):
        els = path.split('?')[0].split('/')
        return els[0] if els[0] else (els[1] if len(els) > 1 else '')

    def handle_post(self, path, data, headers, peer):
        from sdc11073.exceptions import InvalidPathError
        try:
            comp = self.dispatcher.get_instance(self._first(path))
        except InvalidPathError as ex:
            return ex.status, ex.reason, b''
        return comp.do_post(headers, path, peer, data)

    def handle_get(self, path, headers, peer):
        comp = self.dispatcher.get_instance(self._first(path))
        return comp.do_get(headers, path, peer)


class FakeWsDiscovery:
    def __init__(self, ip):
        self._ip = ip
        self.published = []
        self.cleared = []

    @property
    def active_address(self):
        return self._ip

    def publish_service(self, epr, types_, scopes, x_addrs):
        self.published.append((epr, list(types_), scopes, list(x_addrs)))

    def clear_service(self, epr):
        self.cleared.append(epr)


def mk_headers(d):
    m = http.client.HTTPMessage()
    for k, v in d.items():
        m[k] = v
    return m


def mk_loop_client_class(wire, owner):
    """Return a SoapClientProtocol implementation bound to `wire` (a class, so that deepcopy of components keeps it)."""
    from sdc11073 import observableproperties
    from sdc11073.namespaces import default_ns_helper as ns_hlp
    from sdc11073.pysoap.soapclient import HTTPReturnCodeError, SoapClient
    from sdc11073.pysoap.soapenvelope import Fault
    from lxml import etree

    class LoopSoapClient:
        roundtrip_time = observableproperties.ObservableProperty()
        _wire = wire
        _owner = owner

        def __init__(self, netloc, socket_timeout, logger, ssl_context, sdc_definitions, msg_reader,
                     supported_encodings=None, request_encodings=None, chunk_size=0):
            self.netloc = netloc
            self.owner = self._owner
            self.ssl_context = ssl_context
            self._msg_reader = msg_reader
            self.supported_encodings = supported_encodings
            self.request_encodings = request_encodings
            self.chunk_size = chunk_size
            self.sock_name = None
            self._closed = True
            self._has_connection_error = False   # like the real client: no implicit reconnect after a connection error
            self.connect_count = 0
            self.posts = 0
            self._wire.clients.append(self)

        # -- connection life cycle
        def connect(self):
            self._has_connection_error = False
            if self._wire.connect_hook is not None:
                self._wire.connect_hook(self)
            self._closed = False
            self.connect_count += 1
            self.sock_name = (self.owner.ip, 40000 + len(self._wire.clients))

        def close(self):
            self._closed = True
            self.sock_name = None

        async def async_close(self):
            self.close()

        def is_closed(self):
            return self._closed

        @property
        def sock(self):
            return None if self._closed else _FakeSock(self)

        # -- requests
        def _headers(self):
            h = {'Content-type': 'application/soap+xml; charset=utf-8', 'Host': self.netloc}
            if self.supported_encodings:
                h['Accept-Encoding'] = ','.join(self.supported_encodings)
            return mk_headers(h)

        def post_message_to(self, path, created_message, msg='', request_manipulator=None, validate=True):  # noqa: ARG002
            if self.is_closed() and not self._has_connection_error:
                self.connect()
            if self.is_closed():
                raise http.client.NotConnected
            xml_request = SoapClient._prepare_message(created_message, request_manipulator, validate)
            self.posts += 1
            started = _now()
            try:
                status, reason, body = self._wire.post(self, path, xml_request, self._headers())
            except (OSError, http.client.HTTPException) as ex:
                if not isinstance(ex, HTTPReturnCodeError):
                    # the real client closes the connection and refuses to reconnect implicitly
                    self._closed = True
                    self.sock_name = None
                    self._has_connection_error = True
                    if not isinstance(ex, (ConnectionRefusedError, TimeoutError)):
                        raise http.client.NotConnected from ex
                raise
            finally:
                self.roundtrip_time = _now() - started
            if isinstance(body, str):
                body = body.encode('utf-8')
            if status >= 300:
                try:
                    tmp = self._msg_reader.read_received_message(body)
                except etree.XMLSyntaxError as ex:
                    raise HTTPReturnCodeError(status, reason, None) from ex
                raise HTTPReturnCodeError(status, reason, Fault.from_node(tmp.p_msg.msg_node))
            if not body:
                return None
            message_data = self._msg_reader.read_received_message(body)
            if message_data.action == f'{ns_hlp.WSA.namespace}/fault':
                raise HTTPReturnCodeError(status, reason, Fault.from_node(message_data.p_msg.msg_node))
            return message_data

        async def async_post_message_to(self, path, created_message, msg='', request_manipulator=None, validate=True):
            if self._wire.delay_hook is not None:
                delay = self._wire.delay_hook(self, path)
                if delay:
                    await asyncio.sleep(delay)       # a slow subscriber: virtual seconds on the manager's event loop
            if self.is_closed():
                self._has_connection_error = False   # the real async client re-connects implicitly
            return self.post_message_to(path, created_message, msg, request_manipulator, validate)

        def get_from_url(self, url, msg=''):  # noqa: ARG002
            if self.is_closed():
                self.connect()
            if not url.startswith('/'):
                url = '/' + url
            status, reason, body, _ = self._wire.get(self, url, self._headers())
            if isinstance(body, str):
                body = body.encode('utf-8')
            return body

    LoopSoapClient.__name__ = f'LoopSoapClient_{owner.name}'
    return LoopSoapClient


class _FakeSock:
    def __init__(self, client):
        self.client = client

    def getpeercert(self, binary_form=False):
        return b'' if binary_form else {}

    def getsockname(self):
        return self.client.sock_name


class Owner:
    def __init__(self, name, ip):
        self.name, self.ip = name, ip


# --------------------------------------------------------------------------------------------
MDIB_TNS = REPO / 'tests' / 'mdib_tns.xml'
MDIB_TWO_MDS = REPO / 'tests' / 'mdib_two_mds.xml'
MDIB_70041 = REPO / 'tests' / '70041_MDIB_Final.xml'
MDIB_MULTI = REPO / 'tests' / '70041_MDIB_multi.xml'


class World:
    """One provider and optionally consumers on a wire. Build a fresh one per explored history."""

    def __init__(self):
        install()
        ENV.reset()
        self.wire = Wire()
        self.providers = []
        self.consumers = []

    # -- provider -------------------------------------------------------------------------
    def mk_provider(self, mdib_path=MDIB_TNS, ip='10.0.0.1', port=8000, ssl_context_container=None, roles=True,
                    async_mgr=False, shared_server=True, validate=True, alternative_hostname=None,
                    max_subscription_duration=15, start=True, instance_id=1, components_hook=None,
                    periodic_reports_interval=None, epr=None):
        from sdc11073.mdib import ProviderMdib
        from sdc11073.provider import SdcProvider
        from sdc11073.provider.providerimpl import provider_components_async_factory, provider_components_sync_factory
        from sdc11073.xml_types.dpws_types import ThisDeviceType, ThisModelType
        owner = Owner(f'provider{len(self.providers)}', ip)
        mdib = ProviderMdib.from_mdib_file(str(mdib_path))
        mdib.instance_id = instance_id
        comps = provider_components_async_factory() if async_mgr else provider_components_sync_factory()
        comps.soap_client_class = mk_loop_client_class(self.wire, owner)
        if components_hook:
            components_hook(comps)
        role_components = None
        if roles:
            from tutorial.productandroles.exampleproduct import EXAMPLE_ROLE_PROVIDER_COMPONENTS
            role_components = EXAMPLE_ROLE_PROVIDER_COMPONENTS
        model = ThisModelType(manufacturer='Verif', manufacturer_url='www.example.com', model_name='Loop',
                              model_number='1.0', model_url='www.example.com/m', presentation_url='www.example.com/p')
        device = ThisDeviceType(friendly_name='Loop Device', firmware_version='0.1', serial_number='1')
        wsd = FakeWsDiscovery(ip)
        provider = SdcProvider(wsd, model, device, mdib, epr=epr if epr is not None else _uuid4(), validate=validate,
                               ssl_context_container=ssl_context_container, components=comps,
                               role_provider_components=role_components, alternative_hostname=alternative_hostname,
                               max_subscription_duration=max_subscription_duration)
        provider.verif_owner = owner
        provider.verif_wsd = wsd
        if start:
            scheme = 'https' if ssl_context_container is not None else 'http'
            server = FakeHttpServer(self.wire, ip, port, scheme) if shared_server else None
            provider.start_all(start_rtsample_loop=False, shared_http_server=server,
                               periodic_reports_interval=periodic_reports_interval)
        self.providers.append(provider)
        return provider

    # -- consumer -------------------------------------------------------------------------
    def mk_consumer(self, provider, ip='10.0.0.2', port=9000, ssl_context_container=None, force_ssl_connect=False,
                    deferred=False, validate=True, start=True, not_subscribed_actions=None, shared_server=True,
                    alternative_hostname=None):
        from sdc11073.consumer.consumerimpl import SdcConsumer, default_components_factory
        from sdc11073.consumer.subscription import ConsumerSubscriptionManager
        from sdc11073.definitions_sdc import SdcV1Definitions
        from sdc11073.dispatch import RequestDispatcher
        owner = Owner(f'consumer{len(self.consumers)}', ip)

        class QuietSubscriptionManager(ConsumerSubscriptionManager):
            def start(self):  # the renew loop is driven explicitly by the explorer, never by a thread
                self._run = True

            def join(self, timeout=None):
                pass

        comps = default_components_factory()
        comps.soap_client_class = mk_loop_client_class(self.wire, owner)
        comps.subscription_manager_class = QuietSubscriptionManager
        if not deferred:
            comps.action_dispatcher_class = RequestDispatcher
        consumer = SdcConsumer(provider.get_xaddrs()[0], SdcV1Definitions, ssl_context_container, validate=validate,
                               components=comps, force_ssl_connect=force_ssl_connect, epr=_uuid4(),
                               alternative_hostname=alternative_hostname)
        consumer.verif_owner = owner
        if start:
            scheme = 'https' if ssl_context_container is not None else 'http'
            server = FakeHttpServer(self.wire, ip, port, scheme) if shared_server else None
            consumer.start_all(shared_http_server=server, fixed_renew_interval=10 ** 6,
                               not_subscribed_actions=not_subscribed_actions)
        self.consumers.append(consumer)
        return consumer

    def close(self):
        """Stop the only real threads a world can own (event loops of async subscription managers)."""
        for p in self.providers:
            loop_thread = getattr(p._soap_client_pool, 'async_loop_subscr_mgr', None)
            if loop_thread is not None:
                try:
                    loop_thread.stop()
                except Exception:  # noqa: BLE001
                    pass

    def mk_consumer_mdib(self, consumer):
        from sdc11073.mdib.consumermdib import ConsumerMdib
        mdib = ConsumerMdib(consumer)
        mdib.init_mdib()
        return mdib
