"""Alphabet of provider-side operations (committed transactions of every kind) on tests/mdib_tns.xml.

Every event is `fn(provider) -> None` (or raises Disabled when its pre-condition does not hold in the
current state, e.g. deleting a handle that does not exist). Events are deterministic; values are tiny
domains that are forced to collide (same handles, two values).
"""
from __future__ import annotations

from decimal import Decimal

NUM1 = 'numeric.ch0.vmd0'
NUM2 = 'numeric.ch1.vmd0'
STR1 = 'string.ch0.vmd0'
ENUM1 = 'enumstring.ch0.vmd0'
RT = 'rtsa.ch0.vmd0'
AC = 'ac0.mds0'
AS = 'as0.mds0'
AC2 = 'ac0.vmd0.mds0'
ASY = 'asy.mds0'
VMD = 'vmd0'
CH = 'ch0.vmd0'
CH1 = 'ch1.vmd0'
OP = 'numeric.ch0.vmd1_sco_0'
PAT = 'PC.mds0'
LOC = 'LC.mds0'
NEW = 'new.metric'
NEWCH = 'new.chan'
SUBTREE = 'DN_VMD'


class Disabled(Exception):
    pass


def _pm():
    from sdc11073.xml_types import pm_types
    return pm_types


def _names():
    from sdc11073.xml_types import pm_qnames
    return pm_qnames


def _need(provider, handle, present=True):
    from mcx import world
    if world.ENV.sched is not None and world.ENV.sched.me() is not None:
        return  # inside a scheduled writer thread: scenarios only use existing handles; an unlocked look-up would race
    has = provider.mdib.descriptions.handle.get_one(handle, allow_none=True) is not None
    if has != present:
        raise Disabled(handle)


# ---------------------------------------------------------------- state transactions
def metric(handle, value, entity=False, sdt=True):
    def ev(p):
        _need(p, handle)
        if entity:
            ent = p.mdib.entities.by_handle(handle)
            if ent.state.MetricValue is None:
                ent.state.mk_metric_value()
            ent.state.MetricValue.Value = Decimal(value)
            ent.state.MetricValue.MetricQuality.Validity = _pm().MeasurementValidity.VALID
            with p.mdib.metric_state_transaction(set_determination_time=sdt) as tr:
                tr.write_entity(ent)
            return
        with p.mdib.metric_state_transaction(set_determination_time=sdt) as tr:
            st = tr.get_state(handle)
            if st.MetricValue is None:
                st.mk_metric_value()
            st.MetricValue.Value = Decimal(value)
            st.MetricValue.MetricQuality.Validity = _pm().MeasurementValidity.VALID
    return ev


def two_metrics(v):
    def ev(p):
        _need(p, NUM1)
        _need(p, NUM2)
        with p.mdib.metric_state_transaction() as tr:
            for h in (NUM1, NUM2):
                st = tr.get_state(h)
                if st.MetricValue is None:
                    st.mk_metric_value()
                st.MetricValue.Value = Decimal(v)
    return ev


def string_metric(text):
    def ev(p):
        _need(p, STR1)
        with p.mdib.metric_state_transaction() as tr:
            st = tr.get_state(STR1)
            if st.MetricValue is None:
                st.mk_metric_value()
            st.MetricValue.Value = text
    return ev


def empty_tx(p):
    with p.mdib.metric_state_transaction():
        pass


def alert_condition(presence, sdt=True, entity=False):
    def ev(p):
        _need(p, AC)
        if entity:
            ent = p.mdib.entities.by_handle(AC)
            ent.state.Presence = presence
            ent.state.ActualPriority = _pm().AlertConditionPriority.HIGH if presence else _pm().AlertConditionPriority.LOW
            with p.mdib.alert_state_transaction(set_determination_time=sdt) as tr:
                tr.write_entity(ent)
            return
        with p.mdib.alert_state_transaction(set_determination_time=sdt) as tr:
            st = tr.get_state(AC)
            st.Presence = presence
            st.ActualPriority = _pm().AlertConditionPriority.HIGH if presence else _pm().AlertConditionPriority.LOW
    return ev


def alert_signal(on):
    def ev(p):
        _need(p, AS)
        with p.mdib.alert_state_transaction() as tr:
            st = tr.get_state(AS)
            st.Presence = _pm().AlertSignalPresence.ON if on else _pm().AlertSignalPresence.OFF
    return ev


def alert_system_and_condition(p):
    _need(p, AC)
    _need(p, ASY)
    with p.mdib.alert_state_transaction() as tr:
        sy = tr.get_state(ASY)
        sy.ActivationState = _pm().AlertActivation.ON
        sy.PresentPhysiologicalAlarmConditions = [AC]
        st = tr.get_state(AC)
        st.Presence = True


def component(handle, on):
    def ev(p):
        _need(p, handle)
        with p.mdib.component_state_transaction() as tr:
            st = tr.get_state(handle)
            st.ActivationState = _pm().ComponentActivation.ON if on else _pm().ComponentActivation.OFF
            st.OperatingHours = 7 if on else 8
    return ev


def operational(enabled):
    def ev(p):
        _need(p, OP)
        with p.mdib.operational_state_transaction() as tr:
            st = tr.get_state(OP)
            st.OperatingMode = _pm().OperatingMode.ENABLED if enabled else _pm().OperatingMode.DISABLED
    return ev


def rt_samples(values):
    def ev(p):
        _need(p, RT)
        with p.mdib.rt_sample_state_transaction() as tr:
            st = tr.get_state(RT)
            if st.MetricValue is None:
                st.mk_metric_value()
            st.MetricValue.Samples = [Decimal(v) for v in values]
            st.MetricValue.DeterminationTime = 1_700_000_123.5
    return ev


# ---------------------------------------------------------------- contexts
def set_location(n):
    def ev(p):
        from sdc11073.location import SdcLocation
        _need(p, LOC)
        loc = SdcLocation(fac='fac1', poc=f'poc{n}', bed=f'bed{n}')
        p.set_location(loc, [_pm().InstanceIdentifier('Validator', extension_string='System')])
    return ev


def patient_new(given, associated=True):
    def ev(p):
        _need(p, PAT)
        with p.mdib.context_state_transaction() as tr:
            if associated:
                tr.disassociate_all(PAT)
            st = tr.mk_context_state(PAT, set_associated=associated)
            st.CoreData.Givenname = given
            st.CoreData.Familyname = 'Fam'
            st.Identification = [_pm().InstanceIdentifier('urn:pat', extension_string=given)]
    return ev


def patient_entity_new(given):
    def ev(p):
        _need(p, PAT)
        ent = p.mdib.entities.by_handle(PAT)
        st = ent.new_state()
        st.CoreData.Givenname = given
        st.ContextAssociation = _pm().ContextAssociation.PRE_ASSOCIATION
        with p.mdib.context_state_transaction() as tr:
            tr.write_entity(ent, [st.Handle])
    return ev


def patient_ctx_remove(which):
    """Context states deleted in a context-state transaction of their own (entity interface: the state is taken out of the
    entity and its handle is written). NOT in the event table: the library deletes the state without any report ("cannot be
    communicated via notification"), so a consumer cannot follow - see DESIGN.md 8.6."""
    def ev(p):
        _need(p, PAT)
        ent = p.mdib.entities.by_handle(PAT)
        handles = sorted(ent.states)
        if not handles:
            raise Disabled('no patient state')
        victims = handles[:1] if which == 'first' else handles
        for h in victims:
            ent.states.pop(h)
        with p.mdib.context_state_transaction() as tr:
            tr.write_entity(ent, victims)
    return ev


def patient_entity_remove(which):
    """Remove context states of the patient context by writing the entity without them in a descriptor transaction
    (the documented way to delete context states). which: 'first' | 'first-two' | 'all-but-last' | 'all'."""
    def ev(p):
        _need(p, PAT)
        ent = p.mdib.entities.by_handle(PAT)
        handles = sorted(ent.states)
        need = {'first': 1, 'first-two': 2, 'all-but-last': 2, 'all': 1}[which]
        if len(handles) < need:
            raise Disabled(f'{len(handles)} patient context states')
        victims = {'first': handles[:1], 'first-two': handles[:2], 'all-but-last': handles[:-1], 'all': handles}[which]
        for h in victims:
            ent.states.pop(h)
        with p.mdib.descriptor_transaction() as tr:
            tr.write_entity(ent)
    return ev


def update_context_descr_add_state(interface):
    """One descriptor transaction that updates the patient context descriptor AND adds a new context state for it."""
    def ev(p):
        _need(p, PAT)
        sc = _pm().SafetyClassification
        if interface == 'classic':
            with p.mdib.descriptor_transaction() as tr:
                d = tr.get_descriptor(PAT)
                d.SafetyClassification = sc.MED_B if d.SafetyClassification != sc.MED_B else sc.MED_C
                st = p.mdib.data_model.mk_state_container(d)
                st.Handle = f'ctx.added.{p.mdib.mdib_version}'
                st.CoreData.Givenname = 'added'
                tr.add_state(st)
        else:
            ent = p.mdib.entities.by_handle(PAT)
            ent.descriptor.SafetyClassification = sc.MED_A if ent.descriptor.SafetyClassification != sc.MED_A else sc.MED_C
            st = ent.new_state()
            st.CoreData.Givenname = 'added-entity'
            with p.mdib.descriptor_transaction() as tr:
                tr.write_entity(ent)
    return ev


def location_extra(assoc):
    """An additional, not associated location context state (legal: e.g. a pre-associated next location)."""
    def ev(p):
        _need(p, LOC)
        ca = _pm().ContextAssociation
        with p.mdib.context_state_transaction() as tr:
            st = tr.mk_context_state(LOC)
            st.ContextAssociation = ca.PRE_ASSOCIATION if assoc == 'Pre' else ca.NO_ASSOCIATION
            st.LocationDetail.PoC = 'extra'
            st.Identification = [_pm().InstanceIdentifier('urn:loc', extension_string='extra')]
    return ev


def _patient_states(p):
    return sorted(p.mdib.context_states.descriptor_handle.get(PAT, []), key=lambda s: s.Handle)


def patient_update_first(given):
    def ev(p):
        sts = _patient_states(p)
        if not sts:
            raise Disabled('no patient')
        with p.mdib.context_state_transaction() as tr:
            st = tr.get_context_state(sts[0].Handle)
            st.CoreData.Givenname = given
    return ev


def patient_update_all(p):
    sts = _patient_states(p)
    if len(sts) < 2:
        raise Disabled('needs two patient states')
    with p.mdib.context_state_transaction() as tr:
        for s in sts:
            st = tr.get_context_state(s.Handle)
            st.CoreData.Middlename = ['M' + str(s.StateVersion)]


def patient_disassociate(p):
    sts = [s for s in _patient_states(p) if s.ContextAssociation == _pm().ContextAssociation.ASSOCIATED]
    if not sts:
        raise Disabled('no associated patient')
    with p.mdib.context_state_transaction() as tr:
        tr.disassociate_all(PAT)


def patient_reassociate_first(p):
    sts = [s for s in _patient_states(p) if s.ContextAssociation != _pm().ContextAssociation.ASSOCIATED]
    if not sts:
        raise Disabled('no non-associated patient')
    with p.mdib.context_state_transaction() as tr:
        tr.disassociate_all(PAT, ignored_handle=sts[0].Handle)
        st = tr.get_context_state(sts[0].Handle)
        st.ContextAssociation = _pm().ContextAssociation.ASSOCIATED
        st.BindingMdibVersion = tr.new_mdib_version
        st.UnbindingMdibVersion = None
        st.BindingEndTime = None


# ---------------------------------------------------------------- descriptors
def _mk_metric_descriptor(p, handle, parent, resolution='0.1'):
    cls = p.mdib.data_model.get_descriptor_container_class(_names().NumericMetricDescriptor)
    d = cls(handle=handle, parent_handle=parent)
    d.Type = _pm().CodedValue('12345')
    d.Unit = _pm().CodedValue('262656')
    d.Resolution = Decimal(resolution)
    d.MetricCategory = _pm().MetricCategory.MEASUREMENT
    d.MetricAvailability = _pm().MetricAvailability.CONTINUOUS
    return d


def create_metric_classic(with_state=True):
    def ev(p):
        _need(p, NEW, present=False)
        _need(p, CH)
        with p.mdib.descriptor_transaction() as tr:
            d = _mk_metric_descriptor(p, NEW, CH)
            if with_state:
                st = p.mdib.data_model.mk_state_container(d)
                tr.add_descriptor(d, state_container=st)
            else:
                tr.add_descriptor(d)
    return ev


DIST = 'new.dist.metric'


def _fill_dist_descriptor(d, resolution='0.1'):
    d.Type = _pm().CodedValue('12346')
    d.Unit = _pm().CodedValue('262656')
    d.DomainUnit = _pm().CodedValue('262657')
    d.DistributionRange = _pm().Range(lower=Decimal(0), upper=Decimal(10))
    d.Resolution = Decimal(resolution)
    d.MetricCategory = _pm().MetricCategory.MEASUREMENT
    d.MetricAvailability = _pm().MetricAvailability.CONTINUOUS


def create_dist_metric(how):
    """A DistributionSampleArrayMetric (a metric kind none of the MDIB files contains), created through either interface."""
    def ev(p):
        _need(p, DIST, present=False)
        _need(p, CH)
        if how == 'entity':
            ent = p.mdib.entities.new_entity(_names().DistributionSampleArrayMetricDescriptor, DIST, CH)
            _fill_dist_descriptor(ent.descriptor)
            with p.mdib.descriptor_transaction() as tr:
                tr.write_entity(ent)
            return
        cls = p.mdib.data_model.get_descriptor_container_class(_names().DistributionSampleArrayMetricDescriptor)
        d = cls(handle=DIST, parent_handle=CH)
        _fill_dist_descriptor(d)
        with p.mdib.descriptor_transaction() as tr:
            tr.add_descriptor(d, state_container=p.mdib.data_model.mk_state_container(d))
    return ev


def update_dist_metric(how):
    def ev(p):
        _need(p, DIST)
        if how == 'entity':
            ent = p.mdib.entities.by_handle(DIST)
            ent.descriptor.Resolution = Decimal('0.5')
            with p.mdib.descriptor_transaction() as tr:
                tr.write_entity(ent)
            return
        with p.mdib.descriptor_transaction() as tr:
            tr.get_descriptor(DIST).Resolution = Decimal('0.25')
    return ev


def dist_metric_value(p):
    _need(p, DIST)
    with p.mdib.metric_state_transaction() as tr:
        st = tr.get_state(DIST)
        if st.MetricValue is None:
            st.mk_metric_value()
        st.MetricValue.Samples = [Decimal(1), Decimal(2)]


NEWSIG = 'new.signal'


def create_signal(condition):
    """A new alert signal descriptor (with state) under the alert system, signalling `condition` (indexed attribute)."""
    def ev(p):
        _need(p, NEWSIG, present=False)
        _need(p, AS)
        _need(p, condition)
        parent = p.mdib.descriptions.handle.get_one(AS).parent_handle
        cls = p.mdib.data_model.get_descriptor_container_class(_names().AlertSignalDescriptor)
        d = cls(handle=NEWSIG, parent_handle=parent)
        d.ConditionSignaled = condition
        d.Manifestation = _pm().AlertSignalManifestation.VIS
        d.Latching = False
        with p.mdib.descriptor_transaction() as tr:
            tr.add_descriptor(d, state_container=p.mdib.data_model.mk_state_container(d))
    return ev


def create_metric_entity(p):
    _need(p, NEW, present=False)
    _need(p, CH)
    ent = p.mdib.entities.new_entity(_names().NumericMetricDescriptor, NEW, CH)
    ent.descriptor.Type = _pm().CodedValue('12345')
    ent.descriptor.Unit = _pm().CodedValue('262656')
    ent.descriptor.Resolution = Decimal('0.1')
    ent.descriptor.MetricCategory = _pm().MetricCategory.MEASUREMENT
    ent.descriptor.MetricAvailability = _pm().MetricAvailability.CONTINUOUS
    with p.mdib.descriptor_transaction() as tr:
        tr.write_entity(ent)


def create_channel_with_metric(p):
    _need(p, NEWCH, present=False)
    _need(p, VMD)
    cls = p.mdib.data_model.get_descriptor_container_class(_names().ChannelDescriptor)
    with p.mdib.descriptor_transaction() as tr:
        ch = cls(handle=NEWCH, parent_handle=VMD)
        tr.add_descriptor(ch, state_container=p.mdib.data_model.mk_state_container(ch))
        d = _mk_metric_descriptor(p, NEWCH + '.m', NEWCH)
        tr.add_descriptor(d, state_container=p.mdib.data_model.mk_state_container(d))


def update_descriptor(handle, with_state=False, entity=False, value='a'):
    def ev(p):
        _need(p, handle)
        sc = _pm().SafetyClassification.MED_A if value == 'a' else _pm().SafetyClassification.MED_B
        if entity:
            ent = p.mdib.entities.by_handle(handle)
            ent.descriptor.SafetyClassification = sc
            with p.mdib.descriptor_transaction() as tr:
                tr.write_entity(ent)
            return
        with p.mdib.descriptor_transaction() as tr:
            d = tr.get_descriptor(handle)
            d.SafetyClassification = sc
            if with_state:
                st = tr.get_state(handle)
                if st.is_metric_state:
                    if st.MetricValue is None:
                        st.mk_metric_value()
                    st.MetricValue.Value = Decimal(5)
    return ev


def update_condition_signaled(target):
    def ev(p):
        _need(p, AS)
        _need(p, target)
        with p.mdib.descriptor_transaction() as tr:
            d = tr.get_descriptor(AS)
            d.ConditionSignaled = target
    return ev


def update_alert_source(sources):
    def ev(p):
        _need(p, AC)
        with p.mdib.descriptor_transaction() as tr:
            d = tr.get_descriptor(AC)
            d.Source = list(sources)
    return ev


def inplace_lists(handle, tag):
    """A metric transaction that edits list-valued members of the state in place (extension element appended, body site
    appended, first body site edited) instead of assigning new lists - copies retained elsewhere must not follow."""
    def ev(p):
        from lxml import etree
        _need(p, handle)
        with p.mdib.metric_state_transaction() as tr:
            st = tr.get_state(handle)
            st.Extension.append(etree.Element(etree.QName('urn:verif:ext', 'Mark'), attrib={'v': tag}))
            if st.BodySite:
                st.BodySite[0].CodingSystemVersion = f'v-{tag}'     # an element of the list edited in place
            st.BodySite.append(_pm().CodedValue(f'site-{tag}'))
    return ev


def update_indexed_and_create(which):
    """One descriptor transaction that changes an indexed attribute of an existing descriptor (ConditionSignaled / Source)
    and creates a new descriptor: its report has an update part followed by a create part."""
    def ev(p):
        _need(p, NEW, present=False)
        _need(p, CH)
        _need(p, AS if which == 'cond-signaled' else AC)
        if which == 'cond-signaled':
            _need(p, AC2)
        with p.mdib.descriptor_transaction() as tr:
            if which == 'cond-signaled':
                tr.get_descriptor(AS).ConditionSignaled = AC2
            else:
                tr.get_descriptor(AC).Source = [NUM2]
            d = _mk_metric_descriptor(p, NEW, CH)
            tr.add_descriptor(d, state_container=p.mdib.data_model.mk_state_container(d))
    return ev


def update_context_descriptor(p):
    _need(p, PAT)
    with p.mdib.descriptor_transaction() as tr:
        d = tr.get_descriptor(PAT)
        d.SafetyClassification = _pm().SafetyClassification.MED_A


def delete(handle):
    def ev(p):
        _need(p, handle)
        with p.mdib.descriptor_transaction() as tr:
            tr.remove_descriptor(handle)
    return ev


def delete_entity(handle):
    def ev(p):
        _need(p, handle)
        ent = p.mdib.entities.by_handle(handle)
        with p.mdib.descriptor_transaction() as tr:
            tr.remove_entity(ent)
    return ev


def parent_and_child(order):
    """Update the parent channel and add a child metric in one transaction, in either order."""
    def ev(p):
        _need(p, NEW, present=False)
        _need(p, CH)
        with p.mdib.descriptor_transaction() as tr:
            def upd():
                d = tr.get_descriptor(CH)
                d.SafetyClassification = _pm().SafetyClassification.MED_B

            def add():
                d = _mk_metric_descriptor(p, NEW, CH)
                tr.add_descriptor(d, state_container=p.mdib.data_model.mk_state_container(d))
            if order == 'parent-first':
                upd()
                add()
            else:
                add()
                upd()
    return ev


def delete_and_create_sibling(p):
    _need(p, NEW, present=False)
    _need(p, NUM1)
    with p.mdib.descriptor_transaction() as tr:
        tr.remove_descriptor(NUM1)
        d = _mk_metric_descriptor(p, NEW, CH)
        tr.add_descriptor(d, state_container=p.mdib.data_model.mk_state_container(d))


def stash_entity(handle):
    """Read an entity now, write it in a later event (stale entity copies are legal API usage)."""
    def ev(p):
        _need(p, handle)
        if not hasattr(p, 'verif_stash'):
            p.verif_stash = {}
        p.verif_stash[handle] = p.mdib.entities.by_handle(handle)
    return ev


def write_stashed(handle, value='c'):
    def ev(p):
        ent = getattr(p, 'verif_stash', {}).get(handle)
        if ent is None:
            raise Disabled('nothing stashed')
        _need(p, handle)
        sc = {'a': _pm().SafetyClassification.MED_A, 'b': _pm().SafetyClassification.MED_B,
              'c': _pm().SafetyClassification.MED_C}[value]
        ent.descriptor.SafetyClassification = sc
        with p.mdib.descriptor_transaction() as tr:
            tr.write_entity(ent)
    return ev


def write_stashed_state(handle, value):
    def ev(p):
        ent = getattr(p, 'verif_stash', {}).get(handle)
        if ent is None:
            raise Disabled('nothing stashed')
        _need(p, handle)
        if ent.state.MetricValue is None:
            ent.state.mk_metric_value()
        ent.state.MetricValue.Value = Decimal(value)
        with p.mdib.metric_state_transaction() as tr:
            tr.write_entity(ent)
    return ev


EVENTS = [
    ('empty', empty_tx),
    ('metric(N1,1)', metric(NUM1, 1)),
    ('metric(N1,2)', metric(NUM1, 2)),
    ('metric(N2,1)', metric(NUM2, 1)),
    ('metric-entity(N1,3)', metric(NUM1, 3, entity=True)),
    ('metric-nodt(N1,4)', metric(NUM1, 4, sdt=False)),
    ('two-metrics(6)', two_metrics(6)),
    ('string(a)', string_metric('a<&"\' ä')),
    ('alert-cond(on)', alert_condition(True)),
    ('alert-cond(off)', alert_condition(False)),
    ('alert-cond-entity(on,nodt)', alert_condition(True, sdt=False, entity=True)),
    ('alert-signal(on)', alert_signal(True)),
    ('alert-system+cond', alert_system_and_condition),
    ('component(vmd0,on)', component(VMD, True)),
    ('component(ch0,off)', component(CH, False)),
    ('operational(dis)', operational(False)),
    ('operational(en)', operational(True)),
    ('rt(1,2,3)', rt_samples([1, 2, 3])),
    ('rt(4)', rt_samples([4])),
    ('location(1)', set_location(1)),
    ('location(2)', set_location(2)),
    ('patient-new(A)', patient_new('A')),
    ('patient-new(B)', patient_new('B')),
    ('patient-entity-new(C)', patient_entity_new('C')),
    ('patient-entity-remove(first)', patient_entity_remove('first')),
    ('patient-entity-remove(first-two)', patient_entity_remove('first-two')),
    ('patient-entity-remove(all-but-last)', patient_entity_remove('all-but-last')),
    ('patient-entity-remove(all)', patient_entity_remove('all')),
    ('update-context-descr+new-state', update_context_descr_add_state('classic')),
    ('update-context-descr+new-state-entity', update_context_descr_add_state('entity')),
    ('patient-update-first(X)', patient_update_first('X')),
    ('patient-update-all', patient_update_all),
    ('patient-disassociate', patient_disassociate),
    ('patient-reassociate', patient_reassociate_first),
    ('create-metric', create_metric_classic(True)),
    ('create-metric-nostate', create_metric_classic(False)),
    ('create-metric-entity', create_metric_entity),
    ('create-dist-metric', create_dist_metric('classic')),
    ('create-dist-metric-entity', create_dist_metric('entity')),
    ('update-dist-metric', update_dist_metric('classic')),
    ('update-dist-metric-entity', update_dist_metric('entity')),
    ('dist-metric-value', dist_metric_value),
    ('delete(DIST)', delete(DIST)),
    ('create-signal(ac)', create_signal(AC)),
    ('create-signal(ac2)', create_signal(AC2)),
    ('delete(NEWSIG)', delete(NEWSIG)),
    ('create-channel+metric', create_channel_with_metric),
    ('update-descr(N1)', update_descriptor(NUM1)),
    ('update-descr+state(N1)', update_descriptor(NUM1, with_state=True, value='b')),
    ('update-descr-entity(N1)', update_descriptor(NUM1, entity=True)),
    ('update-descr(CH)', update_descriptor(CH, value='b')),
    ('update-descr(NEW)', update_descriptor(NEW, value='b')),
    ('update-cond-signaled', update_condition_signaled(AC2)),
    ('update-alert-source', update_alert_source([NUM1, NUM2])),
    ('inplace-lists(N1,a)', inplace_lists(NUM1, 'a')),
    ('inplace-lists(N1,b)', inplace_lists(NUM1, 'b')),
    ('update-context-descr', update_context_descriptor),
    ('update-cond-signaled+create-metric', update_indexed_and_create('cond-signaled')),
    ('update-alert-source+create-metric', update_indexed_and_create('alert-source')),
    ('delete(NEW)', delete(NEW)),
    ('delete(N2)', delete(NUM2)),
    ('delete-entity(N1)', delete_entity(NUM1)),
    ('delete-subtree(DN_VMD)', delete(SUBTREE)),
    ('delete(ch1)', delete(CH1)),
    ('parent+child(parent-first)', parent_and_child('parent-first')),
    ('parent+child(child-first)', parent_and_child('child-first')),
    ('delete+create-sibling', delete_and_create_sibling),
    ('delete(PAT)', delete(PAT)),
    ('delete-subtree(SC)', delete('SC.mds0')),
]
EVENTS += [
    ('location-extra(Pre)', location_extra('Pre')),
    ('location-extra(No)', location_extra('No')),
]
STASH_EVENTS = [
    ('stash(CH)', stash_entity(CH)),
    ('stash(N1)', stash_entity(NUM1)),
    ('stash(PAT)', stash_entity(PAT)),
    ('write-stashed(CH)', write_stashed(CH)),
    ('write-stashed(N1)', write_stashed(NUM1)),
    ('write-stashed(PAT)', write_stashed(PAT)),
    ('write-stashed-state(N1,8)', write_stashed_state(NUM1, 8)),
]
EVENT_BY_NAME = dict(EVENTS)
EVENT_BY_NAME.update(dict(STASH_EVENTS))

# sub-alphabets
DESCR_CTX = [n for n, _ in EVENTS if n.startswith(('create', 'update', 'delete', 'parent', 'patient', 'location'))]
CORE = ['metric(N1,1)', 'metric(N1,2)', 'alert-cond(on)', 'component(vmd0,on)', 'operational(dis)', 'rt(1,2,3)',
        'location(1)', 'patient-new(A)', 'patient-disassociate', 'create-metric', 'update-descr(N1)',
        'update-descr+state(N1)', 'delete(NEW)', 'delete-entity(N1)', 'parent+child(child-first)',
        'update-cond-signaled', 'update-alert-source', 'update-context-descr']


class _Abort(Exception):
    pass


def aborted(name):
    """The event `name`, but its transaction is aborted at the last moment (a pre-commit handler raises): everything the
    transaction body did - including version bookkeeping for re-created handles - must be without effect."""
    def ev(p):
        orig = p.mdib.pre_commit_handler

        def handler(mdib, tr):
            if callable(orig):
                orig(mdib, tr)      # the role providers' pre-commit work happens, then a later handler vetoes
            raise _Abort
        p.mdib.pre_commit_handler = handler
        try:
            EVENT_BY_NAME[name](p)
        except _Abort:
            pass
        finally:
            p.mdib.pre_commit_handler = orig
    return ev


def late_raise(name):
    """The event `name`, but application code that runs after the commit (post_commit_handler) raises: the transaction is
    committed - content, versions and MdibVersion must be exactly those of an undisturbed commit."""
    def ev(p):
        def handler(mdib, tr):  # noqa: ARG001
            raise _Abort
        old = p.mdib.post_commit_handler
        p.mdib.post_commit_handler = handler
        try:
            EVENT_BY_NAME[name](p)
        except _Abort:
            pass
        finally:
            p.mdib.post_commit_handler = old
    return ev


def apply(provider, name):
    """Run one event; returns 'ok' or 'disabled'."""
    try:
        if name.startswith('abort[') and name not in EVENT_BY_NAME:
            EVENT_BY_NAME[name] = aborted(name[6:-1])
        if name.startswith('late-raise[') and name not in EVENT_BY_NAME:
            EVENT_BY_NAME[name] = late_raise(name[11:-1])
        EVENT_BY_NAME[name](provider)
    except Disabled:
        return 'disabled'
    return 'ok'


# ---------------------------------------------------------------- two-MDS events (tests/mdib_two_mds.xml only)
NUM_M1 = 'numeric_metric_0.channel_0.vmd_0.mds_1'
AC_M1 = 'alert_condition_0.vmd_0.mds_1'
CH_M1 = 'channel_0.vmd_0.mds_1'


def metric_both_mds(v):
    def ev(p):
        _need(p, NUM1)
        _need(p, NUM_M1)
        with p.mdib.metric_state_transaction() as tr:
            for h in (NUM_M1, NUM1, NUM2):
                st = tr.get_state(h)
                if st.MetricValue is None:
                    st.mk_metric_value()
                st.MetricValue.Value = Decimal(v)
    return ev


def alert_both_mds(p):
    _need(p, AC)
    _need(p, AC_M1)
    with p.mdib.alert_state_transaction() as tr:
        for h in (AC, AC_M1):
            st = tr.get_state(h)
            st.Presence = True


def component_both_mds(p):
    _need(p, CH)
    _need(p, CH_M1)
    with p.mdib.component_state_transaction() as tr:
        for h in (CH_M1, CH):
            st = tr.get_state(h)
            st.OperatingHours = 11


def create_metric_mds1(p):
    _need(p, CH_M1)
    _need(p, NUM1)
    _need(p, 'new.m1', present=False)
    with p.mdib.descriptor_transaction() as tr:
        d = _mk_metric_descriptor(p, 'new.m1', CH_M1)
        tr.add_descriptor(d, state_container=p.mdib.data_model.mk_state_container(d))
        d0 = tr.get_descriptor(NUM1)
        d0.SafetyClassification = _pm().SafetyClassification.MED_A


def delete_metric_mds1(p):
    _need(p, NUM_M1)
    with p.mdib.descriptor_transaction() as tr:
        tr.remove_descriptor(NUM_M1)


REUSE_CH = 'reuse.chan'


def create_reused_channel(vmd):
    """A channel handle that exists first under one MDS and - after its removal - under the other one; its metric is added in
    a transaction of its own (so that the metric's MDS is looked up when the channel already exists)."""
    def ev(p):
        _need(p, REUSE_CH, present=False)
        _need(p, vmd)
        cls = p.mdib.data_model.get_descriptor_container_class(_names().ChannelDescriptor)
        with p.mdib.descriptor_transaction() as tr:
            ch = cls(handle=REUSE_CH, parent_handle=vmd)
            tr.add_descriptor(ch, state_container=p.mdib.data_model.mk_state_container(ch))
    return ev


def create_reused_metric(p):
    _need(p, REUSE_CH)
    _need(p, REUSE_CH + '.m', present=False)
    with p.mdib.descriptor_transaction() as tr:
        d = _mk_metric_descriptor(p, REUSE_CH + '.m', REUSE_CH)
        tr.add_descriptor(d, state_container=p.mdib.data_model.mk_state_container(d))


TWO_MDS_EVENTS = [
    ('metric-both-mds(7)', metric_both_mds(7)),
    ('alert-both-mds', alert_both_mds),
    ('component-both-mds', component_both_mds),
    ('create-metric-mds1+update-mds0', create_metric_mds1),
    ('delete-metric-mds1', delete_metric_mds1),
]
REUSE_EVENTS = [
    ('create-reused-channel(mds0)', create_reused_channel('vmd0')),
    ('create-reused-channel(mds1)', create_reused_channel('vmd_0.mds_1')),
    ('create-reused-metric', create_reused_metric),
    ('delete(reused-channel)', delete(REUSE_CH)),
    ('metric(reused,1)', metric(REUSE_CH + '.m', 1)),
]
EVENT_BY_NAME.update(dict(REUSE_EVENTS))
EVENT_BY_NAME.update(dict(TWO_MDS_EVENTS))
