"""Shared history walker for the MDIB properties (C01, C02, C04a, C11b): one fresh loop-back world per history,
one StepRecord per event with everything the oracles need."""
from __future__ import annotations

from mcx import alphabet, canon, world

OBSERVABLES = ('metrics_by_handle', 'waveform_by_handle', 'alert_by_handle', 'context_by_handle',
               'component_by_handle', 'operation_by_handle', 'new_descriptors_by_handle',
               'updated_descriptors_by_handle', 'deleted_descriptors_by_handle', 'deleted_states_by_handle',
               'description_modifications')


class StepRecord:
    __slots__ = ('name', 'result', 'error', 'before', 'after', 'consumer_after', 'wire', 'fired', 'tx_result',
                 'provider_fired')


class Walk:
    def __init__(self, with_consumer=True, mdib_path=world.MDIB_TNS, async_mgr=False, roles=True, provider_kwargs=None,
                 record_subscriber=False):
        self.world = world.World()
        self.provider = self.world.mk_provider(mdib_path=mdib_path, async_mgr=async_mgr, roles=roles,
                                               **(provider_kwargs or {}))
        self.consumer = None
        self.cmdib = None
        self._fired = []
        self._pfired = []
        self._tx = []
        from sdc11073 import observableproperties as op
        op.strongbind(self.provider.mdib, transaction=self._tx.append)
        if with_consumer:
            self.consumer = self.world.mk_consumer(self.provider)
            self.cmdib = self.world.mk_consumer_mdib(self.consumer)
            for name in OBSERVABLES:
                op.strongbind(self.cmdib, **{name: (lambda v, name=name: self._fired.append((name, v)))})
        for name in OBSERVABLES:
            if hasattr(type(self.provider.mdib), name):
                op.strongbind(self.provider.mdib, **{name: (lambda v, name=name: self._pfired.append((name, v)))})
        self.steps = []

    def step(self, name, fn=None):
        rec = StepRecord()
        rec.name = name
        rec.before = canon.snapshot(self.provider.mdib)
        n0 = len(self.world.wire.log)
        del self._fired[:]
        del self._pfired[:]
        del self._tx[:]
        rec.error = None
        try:
            if fn is not None:
                fn(self.provider)
                rec.result = 'ok'
            else:
                rec.result = alphabet.apply(self.provider, name)
        except Exception as ex:  # noqa: BLE001
            rec.result = 'raised'
            rec.error = ex
        world.ENV.now += 1.0
        rec.after = canon.snapshot(self.provider.mdib)
        rec.consumer_after = canon.snapshot(self.cmdib, with_lookup=False) if self.cmdib is not None else None
        rec.wire = self.world.wire.log[n0:]
        rec.fired = list(self._fired)
        rec.provider_fired = list(self._pfired)
        rec.tx_result = list(self._tx)
        self.steps.append(rec)
        return rec


def changed_keys(before, after):
    """Keys of entities whose canonical content differs between two provider snapshots, by kind of change."""
    b, a = canon.content(before), canon.content(after)
    created = {k for k in a if k not in b}
    deleted = {k for k in b if k not in a}
    updated = {k for k in a if k in b and a[k] != b[k]}
    return created, updated, deleted


def state_key(snap):
    """Hashable key of a snapshot for state counting (versions and content, not the removed-version lookup)."""
    return canon.freeze({k: v for k, v in snap.items() if k != 'version_lookup'})
