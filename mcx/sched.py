"""Engine S: stateless, preemption-bounded exploration of real threads under a cooperative baton scheduler.

Real Python threads execute the real library code, but only the thread holding the baton runs. Every acquire and
release of an instrumented lock (and every sleep) is a scheduling point at which the explorer decides who runs next.
Blocking is modelled: a thread waiting for a lock held by another thread is not enabled. A schedule is the list of
choices taken at the points; choice 0 keeps the current thread running if it is enabled (otherwise the lowest enabled
id), switching away from an enabled thread costs one preemption. `explore` enumerates all schedules with at most
`bound` preemptions (iterative context bounding, CHESS style).
"""
from __future__ import annotations

import os
import sys
import threading

WATCHDOG = 20.0


class Deadlock(Exception):
    pass


class SchedAbort(BaseException):
    """Raised inside scheduled threads to unwind them when an execution is abandoned."""


class Diverged(Exception):
    pass


class _T:
    def __init__(self, tid, name, fn):
        self.tid, self.name, self.fn = tid, name, fn
        self.sem = threading.Semaphore(0)
        self.done = False
        self.waiting_for = None
        self.exc = None
        self.thread = None
        self.result = None
        self.in_sched = False      # inside a scheduler primitive (no line points there)


class Scheduler:
    def __init__(self, prefix=()):
        self.prefix = list(prefix)
        self.trace = []          # (chosen index, enabled thread ids, current tid, label, cost_of_alternatives)
        self.threads = []
        self.current = None
        self._by_ident = {}
        self.finished = threading.Event()
        self.error = None
        self.aborting = False
        self.lock_ops = 0
        self.point_filter = None   # callable(label) -> bool: False = no scheduling point here unless the thread must block
        self.line_anchors = None   # LineAnchors: statement-granularity scheduling points inside the named functions
        self.line_points = 0

    # ---- registration
    def spawn(self, fn, name=None):
        t = _T(len(self.threads), name or f't{len(self.threads)}', fn)
        self.threads.append(t)
        return t

    def me(self):
        return self._by_ident.get(threading.get_ident())

    # ---- core
    def _enabled(self):
        out = []
        for t in self.threads:
            if t.done:
                continue
            w = t.waiting_for
            if w is not None and not w._acquirable_by(t):
                continue
            out.append(t)
        return out

    def _choose(self, n, label):
        i = len(self.trace)
        c = self.prefix[i] if i < len(self.prefix) else 0
        if c >= n:
            raise Diverged(f'replayed choice {c} at point {i} ({label}) but only {n} thread(s) enabled')
        return c

    def point(self, label):
        """Scheduling point, called by the running scheduled thread."""
        t = self.me()
        if t is None or self.aborting:
            if self.aborting and t is not None:
                raise SchedAbort
            return
        enabled = self._enabled()
        cur_enabled = t in enabled
        order = ([t] if cur_enabled else []) + [x for x in enabled if x is not t]
        if not order:
            self._fail(Deadlock(f'no enabled thread at {label}: ' + self._describe()))
            raise SchedAbort
        try:
            c = self._choose(len(order), label)
        except Diverged as ex:
            self._fail(ex)
            raise SchedAbort from ex
        self.trace.append((c, [x.tid for x in order], t.tid, label, cur_enabled))
        nxt = order[c]
        if nxt is not t:
            self.current = nxt
            nxt.sem.release()
            self._wait(t)

    def _wait(self, t):
        if not t.sem.acquire(timeout=WATCHDOG):
            self._fail(RuntimeError(f'watchdog: thread {t.name} was never rescheduled (uninstrumented blocking call?)'))
            raise SchedAbort
        if self.aborting:
            raise SchedAbort

    def _describe(self):
        return ', '.join(f'{t.name}:{"done" if t.done else ("waits " + str(t.waiting_for.name) if t.waiting_for else "ready")}'
                         for t in self.threads)

    def _fail(self, exc):
        if self.error is None:
            self.error = exc
        self.aborting = True
        for t in self.threads:
            t.sem.release()
        self.finished.set()

    # ---- statement-granularity points (sys.settrace 'line' events inside anchor functions)
    def _global_trace(self, frame, event, arg):  # noqa: ARG002
        if event == 'call':
            w = self.line_anchors.wants(frame.f_code)
            if w:
                if w == 'op':
                    frame.f_trace_opcodes = True      # bytecode granularity inside this (tiny) function
                    return self._local_trace_op
                return self._local_trace
        return None

    def _local_trace(self, frame, event, arg):  # noqa: ARG002
        if event == 'line' and not self.aborting:
            t = self.me()
            if t is not None and not t.done and not t.in_sched:
                self.line_points += 1
                code = frame.f_code
                self.point(f'line:{code.co_name}:{frame.f_lineno - code.co_firstlineno}')
        return self._local_trace

    def _local_trace_op(self, frame, event, arg):  # noqa: ARG002
        if event == 'opcode' and not self.aborting:
            t = self.me()
            if t is not None and not t.done and not t.in_sched:
                self.line_points += 1
                code = frame.f_code
                self.point(f'line:{code.co_name}:op{frame.f_lasti}')
        return self._local_trace_op

    def _body(self, t):
        self._by_ident[threading.get_ident()] = t
        try:
            self._wait(t)
            if self.line_anchors is not None:
                sys.settrace(self._global_trace)
            t.result = t.fn()
        except SchedAbort:
            pass
        except BaseException as ex:  # noqa: BLE001  recorded, judged by the harness
            t.exc = ex
        finally:
            sys.settrace(None)
            t.done = True
            t.waiting_for = None
            self._on_exit(t)

    def _on_exit(self, t):
        if self.aborting:
            return
        remaining = [x for x in self.threads if not x.done]
        if not remaining:
            self.finished.set()
            return
        enabled = self._enabled()
        if not enabled:
            self._fail(Deadlock('threads left but none enabled: ' + self._describe()))
            return
        try:
            c = self._choose(len(enabled), f'exit:{t.name}')
        except Diverged as ex:
            self._fail(ex)
            return
        self.trace.append((c, [x.tid for x in enabled], t.tid, f'exit:{t.name}', False))
        nxt = enabled[c]
        self.current = nxt
        nxt.sem.release()

    def run(self):
        for t in self.threads:
            t.thread = threading.Thread(target=self._body, args=(t,), name=f'sched-{t.name}', daemon=True)
            t.thread.start()
        # initial choice: who starts
        enabled = self._enabled()
        c = self._choose(len(enabled), 'start')
        self.trace.append((c, [x.tid for x in enabled], -1, 'start', False))
        self.current = enabled[c]
        self.current.sem.release()
        if not self.finished.wait(timeout=WATCHDOG * 3):
            self._fail(RuntimeError('watchdog: execution did not finish: ' + self._describe()))
        for t in self.threads:
            t.thread.join(timeout=5)
        if isinstance(self.error, (Diverged, RuntimeError)):
            raise self.error
        return self

    def choices(self):
        return [c for c, *_ in self.trace]


class LineAnchors:
    """Which functions get statement-granularity scheduling points: (file name suffix, function name) pairs; a function
    name of '*' takes every function of the file. Line labels are relative to the first line of the function, so that an
    unrelated edit further up in the file does not change a recorded schedule."""

    def __init__(self, pairs, opcode_level=()):
        """pairs: statement granularity; opcode_level: (file, function) pairs explored at bytecode granularity (a switch
        between the load and the store of one `x += 1`)."""
        self.pairs = [(os.path.normpath(f), n) for f, n in pairs]
        self.op_pairs = [(os.path.normpath(f), n) for f, n in opcode_level]
        self._cache = {}
        self.seen = set()

    def wants(self, code):
        r = self._cache.get(code)
        if r is None:
            fn = os.path.normpath(code.co_filename)
            if any(fn.endswith(f) and n == code.co_name for f, n in self.op_pairs):
                r = 'op'
            else:
                r = any(fn.endswith(f) and (n == '*' or n == code.co_name) for f, n in self.pairs)
            self._cache[code] = r
        if r:
            self.seen.add(code.co_name)
        return r


class SchedLock:
    """Instrumented non-reentrant lock."""

    reentrant = False

    def __init__(self, sched_ref, name='lock'):
        self._sched_ref = sched_ref
        self.name = name
        self.owner = None     # _T, or 'ext' for threads outside the scheduler
        self.count = 0
        self._real = threading.RLock() if self.reentrant else threading.Lock()

    def _sched(self):
        return self._sched_ref()

    def _acquirable_by(self, t):
        return self.owner is None or (self.reentrant and self.owner is t)

    def acquire(self, blocking=True, timeout=-1):  # noqa: ARG002
        s = self._sched()
        t = s.me() if s is not None else None
        if t is None:
            # thread outside the scheduler (world construction in the main thread): plain lock semantics
            ok = self._real.acquire(blocking, timeout) if timeout != -1 else self._real.acquire(blocking)
            if ok:
                self.owner = 'ext'
                self.count += 1
            return ok
        s.lock_ops += 1
        t.waiting_for = self
        if not blocking and not self._acquirable_by(t):
            t.waiting_for = None
            return False
        label = f'acquire:{self.name}'
        if s.point_filter is None or s.point_filter(label) or not self._acquirable_by(t):
            s.point(label)
        # scheduled => acquirable (enabledness of a waiting thread requires it)
        if not self._acquirable_by(t):
            s._fail(RuntimeError(f'scheduler bug: {t.name} scheduled but {self.name} is held'))
            raise SchedAbort
        t.waiting_for = None
        self.owner = t
        self.count += 1
        return True

    def release(self):
        s = self._sched()
        t = s.me() if s is not None else None
        if t is None:
            self.count -= 1
            if self.count <= 0:
                self.owner = None
                self.count = 0
            self._real.release()
            return
        if self.owner is not t:
            raise RuntimeError(f'release of {self.name} by {t.name}, owner is {getattr(self.owner, "name", self.owner)}')
        self.count -= 1
        if self.count == 0:
            self.owner = None
            label = f'release:{self.name}'
            if s.point_filter is None or s.point_filter(label):
                s.point(label)

    def locked(self):
        return self.owner is not None

    def __enter__(self):
        self.acquire()
        return self

    def __exit__(self, *exc):
        self.release()
        return False


class SchedRLock(SchedLock):
    reentrant = True


# --------------------------------------------------------------------------------------------
def preemptions(trace):
    n = 0
    for c, order, cur, label, cur_enabled in trace:
        if cur_enabled and c != 0:
            n += 1
    return n


def children(trace, prefix_len, bound, weight=None):
    """Alternative prefixes (one more deviation) below an executed schedule, within the preemption bound."""
    choices = [c for c, *_ in trace]
    cost = 0
    costs_before = []
    for c, order, cur, label, cur_enabled in trace:
        costs_before.append(cost)
        if cur_enabled and c != 0:
            cost += weight(label) if weight else 1
    out = []
    for i in range(len(trace) - 1, prefix_len - 1, -1):
        c, order, cur, label, cur_enabled = trace[i]
        for alt in range(len(order) - 1, 0, -1):
            extra = (weight(label) if weight else 1) if cur_enabled else 0
            if costs_before[i] + extra > bound:
                continue
            out.append(choices[:i] + [alt])
    return out


def explore(run_one, bound, max_executions=None, on_execution=None, weight=None, start=None, depth_limit=None):
    """Enumerate all schedules with at most `bound` preemptions.

    run_one(prefix) -> (trace, observation): runs one execution replaying `prefix` and then always choice 0.
    `start`: list of prefixes to start from (default: the empty prefix = the whole tree).
    `depth_limit`: if 0, only the start prefixes are executed and their children are returned instead of explored.
    Returns (executions, capped) or, with depth_limit=0, (executions, children prefixes).
    """
    stack = [list(p) for p in (start if start is not None else [[]])]
    if depth_limit == 0:
        kids = []
        n = 0
        for prefix in stack:
            trace, obs = run_one(prefix)
            n += 1
            if on_execution is not None:
                on_execution(prefix, trace, obs)
            kids.extend(children(trace, len(prefix), bound, weight))
        return n, kids
    executions = 0
    capped = False
    while stack:
        prefix = stack.pop()
        trace, obs = run_one(prefix)
        executions += 1
        if on_execution is not None:
            on_execution(prefix, trace, obs)
        if max_executions is not None and executions >= max_executions:
            capped = bool(stack)
            break
        choices = [c for c, *_ in trace]
        cost = 0
        costs_before = []
        for c, order, cur, label, cur_enabled in trace:
            costs_before.append(cost)
            if cur_enabled and c != 0:
                cost += weight(label) if weight else 1
        for i in range(len(trace) - 1, len(prefix) - 1, -1):
            c, order, cur, label, cur_enabled = trace[i]
            for alt in range(len(order) - 1, 0, -1):
                extra = (weight(label) if weight else 1) if cur_enabled else 0
                if costs_before[i] + extra > bound:
                    continue
                stack.append(choices[:i] + [alt])
    return executions, capped


def run_partitioned(ctx, worker_fn, scenario_args, key_of, group=6):
    """Two-phase parallel exploration: phase 1 runs the default schedule of every scenario and collects its first-level
    alternatives; phase 2 explores the subtrees below groups of those alternatives on all workers.

    worker_fn(acc, (scenario_arg, start_prefixes | None, expand_only)) must call `explore` accordingly and, when
    expand_only, `acc.emit((key, child_prefixes))`.
    """
    del ctx.emitted[:]
    ctx.pmap(worker_fn, [(a, None, True) for a in scenario_args], chunksize=1)
    kids = list(ctx.emitted)
    del ctx.emitted[:]
    by_key = {key_of(a): a for a in scenario_args}
    jobs = []
    for key, prefixes in kids:
        for i in range(0, len(prefixes), group):
            jobs.append((by_key[key], prefixes[i:i + group], False))
    # largest scenarios first is not needed: groups are small and uniform
    ctx.pmap(worker_fn, jobs, chunksize=1)
    return len(jobs)
