"""Engine H: explicit-state exploration over operation histories of the real implementation.

A state is the history that reaches it; `build()` creates fresh real objects and replays the history.
Canonical snapshots are hashed to count distinct states; the invariant is evaluated after every step.
Failures are minimised (events removed while the same failure signature persists) before being reported,
so that the violation key names the shortest history that still fails.
"""
from __future__ import annotations

import itertools


def sequences(alphabet, depth):
    """All sequences of exactly `depth` events (every shorter history is a prefix of one of them)."""
    return [list(t) for t in itertools.product(alphabet, repeat=depth)]


def sequences_from(pre_states, alphabet, depth):
    """pre_state histories followed by every sequence of `depth` events."""
    out = []
    for pre in pre_states:
        for t in itertools.product(alphabet, repeat=depth):
            out.append(list(pre) + list(t))
    return out


class StepFailure(Exception):
    def __init__(self, kind, signature, detail):
        super().__init__(f'{kind}: {signature}')
        self.kind = kind
        self.signature = signature
        self.detail = detail


def minimise(run, hist, failure_step, kind, signature):
    """Greedy one-at-a-time removal of earlier events while run(h) still fails at its last step with same kind+signature.

    run(h) -> None | (step_index, kind, signature, detail)
    """
    cur = list(hist[:failure_step + 1])
    changed = True
    while changed and len(cur) > 1:
        changed = False
        for i in range(len(cur) - 1):
            cand = cur[:i] + cur[i + 1:]
            res = run(cand)
            if res is not None and res[0] == len(cand) - 1 and res[1] == kind and res[2] == signature:
                cur = cand
                changed = True
                break
    return cur
