"""Canonical, hashable projections of containers, data types, tables and whole MDIBs.

Semantic equality as in property C01: implied == explicit attribute values, timestamps at 1 ms wire
resolution, durations at 1 us, Decimal numerically, the self-updating ClockState.DateAndTime excluded.
`scan_ok` recomputes every index of a MultiKeyLookup from table.objects, independently of the library.
"""
from __future__ import annotations

import enum
from decimal import Decimal

from lxml import etree

DROP = {('ClockStateContainer', 'DateAndTime'),            # self-updating clock time
        ('HeaderInformationBlock', 'MessageID')}            # a fresh random id per instance by design


def _c14n(node):
    try:
        return etree.tostring(node, method='c14n2', strip_text=True).decode('utf-8', 'replace')
    except Exception:  # noqa: BLE001
        return etree.tostring(node).decode('utf-8', 'replace')


def canon_value(value, conv=None):
    from sdc11073.xml_types.dataconverters import DurationConverter, ListConverter, TimestampConverter
    if value is None or isinstance(value, (bool, str)):
        return value
    if isinstance(value, enum.Enum):
        return ('E', str(value.value))
    if isinstance(value, (int, float, Decimal)) and not isinstance(value, bool):
        if conv is TimestampConverter or isinstance(conv, TimestampConverter):
            return ('T', round(value * 1000))
        if conv is DurationConverter or isinstance(conv, DurationConverter):
            return ('U', round(value * 1_000_000))
    if isinstance(value, int):
        return value
    if isinstance(value, Decimal):
        if not value.is_finite():
            return ('D', str(value))
        return ('D', format(value.normalize(), 'f') if value != 0 else '0')
    if isinstance(value, float):
        return ('F', repr(value))
    if isinstance(value, etree.QName):
        return ('Q', value.text)
    if isinstance(value, (list, tuple)):
        elem_conv = conv
        if isinstance(conv, ListConverter):
            elem_conv = conv._element_converter
        return tuple(canon_value(v, elem_conv) for v in value)
    if hasattr(value, 'sorted_container_properties'):
        return canon_obj(value)
    if isinstance(value, etree._Element):
        return ('X', _c14n(value))
    if isinstance(value, bytes):
        return value
    if isinstance(value, dict):
        return tuple(sorted((str(k), canon_value(v)) for k, v in value.items()))
    return ('R', repr(value))


def canon_obj(obj, drop_node_type=False):
    """Canonical form of an XMLTypeBase / ContainerBase instance by reflection over its declared properties."""
    cls_name = type(obj).__name__
    items = []
    for name, prop in obj.sorted_container_properties():
        if (cls_name, name) in DROP:
            continue
        try:
            value = getattr(obj, name)  # implied value when absent
        except Exception as ex:  # noqa: BLE001
            value = ('!', repr(ex))
        conv = getattr(prop, '_converter', None)
        items.append((name, canon_value(value, conv)))
    head = [cls_name]
    nodetype = getattr(obj, 'NODETYPE', None)
    if nodetype is not None and not drop_node_type:
        head.append(str(nodetype))
    if getattr(obj, 'is_descriptor_container', False):
        head.append(('parent', obj.parent_handle))
    return (tuple(head), tuple(items))


def key_of(container):
    """Identity of a container inside its table: ('d', Handle) / ('s', DescriptorHandle) / ('c', Handle)."""
    if getattr(container, 'is_descriptor_container', False):
        return ('d', container.Handle)
    if getattr(container, 'is_context_state', False):
        return ('c', container.Handle)
    return ('s', container.DescriptorHandle)


def version_of(container):
    if getattr(container, 'is_descriptor_container', False):
        return container.DescriptorVersion
    return container.StateVersion


def table_dict(table):
    """{key: canonical form} of all members; non-containers are reported under ('?', repr)."""
    out = {}
    for obj in table.objects:
        if obj is None or not hasattr(obj, 'sorted_container_properties'):
            out[('?', repr(obj))] = ('?', repr(obj))
            continue
        k = key_of(obj)
        if k in out:
            out[('dup', k, id(obj))] = canon_obj(obj)
        else:
            out[k] = canon_obj(obj)
    return out


def snapshot(mdib, with_lookup=True):
    """Canonical snapshot of a provider or consumer MDIB."""
    snap = {
        'mdib_version': mdib.mdib_version,
        'sequence_id': mdib.sequence_id,
        'instance_id': mdib.instance_id,
        'descriptors': table_dict(mdib.descriptions),
        'states': table_dict(mdib.states),
        'context_states': table_dict(mdib.context_states),
    }
    if with_lookup:
        snap['version_lookup'] = tuple(
            tuple(sorted(getattr(t, 'handle_version_lookup', {}).items()))
            for t in (mdib.descriptions, mdib.states, mdib.context_states))
    return snap


def content(snap):
    """Merged {key: canon} of all three tables."""
    out = {}
    out.update(snap['descriptors'])
    out.update(snap['states'])
    out.update(snap['context_states'])
    return out


def freeze(snap):
    return tuple((k, tuple(sorted(v.items(), key=repr)) if isinstance(v, dict) else v) for k, v in sorted(snap.items()))


def diff(a, b, limit=6):
    """Human-readable differences between two snapshots (a: expected, b: observed)."""
    out = []
    for k in ('mdib_version', 'sequence_id', 'instance_id'):
        if a.get(k) != b.get(k):
            out.append(f'{k}: {a.get(k)!r} != {b.get(k)!r}')
    for tname in ('descriptors', 'states', 'context_states'):
        ta, tb = a[tname], b[tname]
        for k in sorted(set(ta) | set(tb), key=repr):
            if k not in tb:
                out.append(f'{tname}: {k} missing in second')
            elif k not in ta:
                out.append(f'{tname}: {k} only in second')
            elif ta[k] != tb[k]:
                out.append(f'{tname}: {k} differs: ' + _item_diff(ta[k], tb[k]))
            if len(out) >= limit:
                return out
    if 'version_lookup' in a and 'version_lookup' in b and a['version_lookup'] != b['version_lookup']:
        out.append('version_lookup differs')
    return out


def _item_diff(ca, cb):
    if ca[0] != cb[0]:
        return f'head {ca[0]} != {cb[0]}'
    da, db = dict(ca[1]), dict(cb[1])
    parts = []
    for name in da:
        if da[name] != db.get(name):
            parts.append(f'{name}: {str(da[name])[:120]} != {str(db.get(name))[:120]}')
    return '; '.join(parts[:4])


# --------------------------------------------------------------------------------------------
def scan_ok(table, index_specs=None):
    """Compare every index of a MultiKeyLookup with a fresh grouping of table.objects.

    Returns a list of problems (empty = consistent). The key functions are taken from the index
    definitions (they are part of the table's *declaration*); the maintenance logic (add / remove /
    update bookkeeping) is what is being checked, re-implemented here from the documented semantics:
    IndexDefinition groups by key (None keys only when index_none_values), UIndexDefinition maps a key
    to exactly one object, IndexDefinition1n files an object under every member of its key list.
    """
    from sdc11073 import multikey
    problems = []
    objects = list(table._objects)
    for obj in objects:
        if obj is None:
            problems.append('None stored in objects')
    objects = [o for o in objects if o is not None]
    ids = {id(o) for o in objects}
    if len(ids) != len(objects):
        problems.append('duplicate object identity in objects')
    for name, idx in table._idx_defs.items():
        expected = {}
        for obj in objects:
            try:
                key = idx._get_key_func(obj)
            except (TypeError, AttributeError):
                continue
            if key is None and not idx._index_none_values:
                continue
            if isinstance(idx, multikey.IndexDefinition1n):
                keys = list(key)
            else:
                keys = [key]
            for k in keys:
                expected.setdefault(k, []).append(obj)
        actual = {k: list(v) for k, v in dict.items(idx)}
        for k in set(expected) | set(actual):
            e = sorted(id(o) for o in expected.get(k, []))
            a = sorted(id(o) for o in actual.get(k, []))
            if e != a:
                problems.append(f'index {name}[{k!r}]: scan finds {len(e)} object(s), index holds {len(a)}'
                                + ('' if len(e) != len(a) else ' (different objects)'))
        if isinstance(idx, multikey.UIndexDefinition):
            for k, v in expected.items():
                if len(v) > 1:
                    problems.append(f'unique index {name}[{k!r}] has {len(v)} objects in table')
    # back references
    for oid in table._object_ids:
        if oid not in ids and table._object_ids[oid]:
            problems.append('_object_ids has an entry for an object that is not in the table')
    for obj in objects:
        refs = table._object_ids.get(id(obj))
        if refs is None:
            problems.append(f'object {_short(obj)} has no back references')
    return problems


def _short(obj):
    for a in ('Handle', 'DescriptorHandle', 'identifier_uuid'):
        v = getattr(obj, a, None)
        if v is not None:
            return f'{type(obj).__name__}({v})'
    return type(obj).__name__


def mdib_scan(mdib):
    problems = []
    for tname in ('descriptions', 'states', 'context_states'):
        for p in scan_ok(getattr(mdib, tname)):
            problems.append(f'{tname}: {p}')
    return problems


def referential(mdib):
    """Referential invariants of C02 on a provider or consumer MDIB."""
    problems = []
    descr = {}
    for d in mdib.descriptions.objects:
        descr[d.Handle] = d
    for d in descr.values():
        if d.parent_handle is not None and d.parent_handle not in descr:
            problems.append(f'descriptor {d.Handle}: parent {d.parent_handle} does not exist')
    seen = {}
    for s in mdib.states.objects:
        if s is None:
            continue
        seen[s.DescriptorHandle] = seen.get(s.DescriptorHandle, 0) + 1
        d = descr.get(s.DescriptorHandle)
        if d is None:
            problems.append(f'state {s.DescriptorHandle}: descriptor does not exist')
        elif s.DescriptorVersion != d.DescriptorVersion:
            problems.append(f'state {s.DescriptorHandle}: DescriptorVersion {s.DescriptorVersion} != '
                            f'descriptor {d.DescriptorVersion}')
    for h, n in seen.items():
        if n > 1:
            problems.append(f'descriptor {h} has {n} single states')
    handles = set()
    for s in mdib.context_states.objects:
        if s is None:
            problems.append('None in context_states')
            continue
        d = descr.get(s.DescriptorHandle)
        if d is None:
            problems.append(f'context state {s.Handle}: descriptor {s.DescriptorHandle} does not exist')
        elif s.DescriptorVersion != d.DescriptorVersion:
            problems.append(f'context state {s.Handle}: DescriptorVersion {s.DescriptorVersion} != '
                            f'descriptor {d.DescriptorVersion}')
        if s.Handle in handles or s.Handle in descr:
            problems.append(f'context state handle {s.Handle} is not unique')
        handles.add(s.Handle)
    return problems
