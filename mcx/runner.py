"""Shared runner: tiers, evidence, known findings, replay files, parallel fan-out.

A check module lives in mcx/checks/<id>.py (lower case id) and defines

    PROPERTY = 'C15'
    TECHNIQUE = '...'
    def run(ctx): ...                       # explore, call ctx.violation(...) for every failing case
    def replay(ctx, case): ...              # optional: re-run one recorded case (plain sequential code)

Exit status: 0 property held on everything explored (KNOWN-FINDING lines allowed),
1 = at least one violation not listed in known_findings.json, 2 = harness error.
"""
from __future__ import annotations

import argparse
import hashlib
import importlib
import json
import logging
import multiprocessing
import os
import sys
import time
import traceback
from pathlib import Path

ROOT = Path(__file__).resolve().parent.parent
REPO = Path(os.environ.get('VERIF_REPO', '/repo'))
# VERIF_OUT: scratch runs (seed trials against another tree) write evidence and replays there, not into /verif
OUT = Path(os.environ['VERIF_OUT']) if os.environ.get('VERIF_OUT') else ROOT
EVIDENCE_DIR = OUT / 'evidence'
REPLAY_DIR = OUT / 'replays'
KNOWN_FINDINGS = ROOT / 'known_findings.json'
MAX_REPORTED = 25  # VIOLATION lines / replay files per run (all are counted)
MAX_SAMPLES = 8


class HarnessError(Exception):
    """The harness (not the code under test) is broken; never reported as VIOLATION."""


def _jsonable(obj):
    if isinstance(obj, (str, int, float, bool)) or obj is None:
        return obj
    if isinstance(obj, bytes):
        try:
            return obj.decode('ascii')
        except UnicodeDecodeError:
            return 'hex:' + obj.hex()
    if isinstance(obj, dict):
        return {str(k): _jsonable(v) for k, v in obj.items()}
    if isinstance(obj, (list, tuple, set, frozenset)):
        return [_jsonable(v) for v in obj]
    return repr(obj)


def h64(obj) -> int:
    """Stable 64-bit hash of a canonical (repr-able) value."""
    return int.from_bytes(hashlib.blake2b(repr(obj).encode('utf-8', 'backslashreplace'), digest_size=8).digest(), 'big')


class Acc:
    """Accumulator that can be merged across worker processes."""

    def __init__(self):
        self.counts: dict[str, int] = {}
        self.distinct: set[int] = set()
        self.states: set[int] = set()
        self.samples: list = []
        self.violations: dict[str, dict] = {}
        self.caps: dict[str, str] = {}
        self.notes: dict = {}
        self.outcomes: dict[str, int] = {}
        self.emitted: list = []  # free-form results returned by workers (e.g. BFS successors)

    # -- counters -------------------------------------------------------
    def add(self, key: str, n: int = 1):
        self.counts[key] = self.counts.get(key, 0) + n

    def evals(self, n: int = 1):
        self.add('evaluations', n)

    def transition(self, n: int = 1):
        self.add('transitions', n)

    def trace(self, n: int = 1):
        self.add('traces_validated_against_impl', n)

    def state(self, canon) -> bool:
        """Register a canonical state; True if it is new."""
        k = canon if isinstance(canon, int) else h64(canon)
        if k in self.states:
            return False
        self.states.add(k)
        return True

    def nontrivial(self, canon):
        self.distinct.add(canon if isinstance(canon, int) else h64(canon))

    def outcome(self, name: str, n: int = 1):
        """Count a named observed outcome (vacuity guard: read these numbers)."""
        self.outcomes[name] = self.outcomes.get(name, 0) + n

    def sample(self, obj):
        if len(self.samples) < MAX_SAMPLES:
            self.samples.append(_jsonable(obj))

    def cap(self, name: str, info: str):
        self.caps[name] = info

    def note(self, key: str, value):
        self.notes[key] = _jsonable(value)

    def emit(self, obj):
        self.emitted.append(obj)

    def violation(self, key: str, detail, case=None):
        """Record a violation. `key` identifies the failing input / call site / history."""
        if key not in self.violations:
            self.violations[key] = {'key': key, 'detail': _jsonable(detail), 'case': _jsonable(case)}

    # -- merge ----------------------------------------------------------
    def merge(self, other: 'Acc'):
        for k, v in other.counts.items():
            self.counts[k] = self.counts.get(k, 0) + v
        for k, v in other.outcomes.items():
            self.outcomes[k] = self.outcomes.get(k, 0) + v
        self.distinct |= other.distinct
        self.states |= other.states
        for s in other.samples:
            if len(self.samples) < MAX_SAMPLES:
                self.samples.append(s)
        for k, v in other.violations.items():
            self.violations.setdefault(k, v)
        self.caps.update(other.caps)
        self.emitted.extend(other.emitted)
        for k, v in other.notes.items():
            self.notes.setdefault(k, v)


class Ctx(Acc):
    def __init__(self, prop: str, tier: str, seed: int, workers: int):
        super().__init__()
        self.prop = prop
        self.tier = tier
        self.seed = seed
        self.workers = workers
        self.assumptions: list[str] = []
        self.rule = ''
        self.exhaustive = True

    @property
    def quick(self) -> bool:
        return self.tier == 'quick'

    def rotate(self, seq):
        """Rotate an alphabet by the seed: same set, different order (exhaustive either way)."""
        seq = list(seq)
        if not seq:
            return seq
        k = self.seed % len(seq)
        return seq[k:] + seq[:k]

    def pmap(self, fn, items, chunksize: int | None = None, workers: int | None = None):
        """Run fn(acc, item) for every item on a process pool, merging the accumulators.

        fn must be a module-level function. Workers are forked (patches applied before stay in place).
        """
        items = list(items)
        workers = min(workers or self.workers, max(1, len(items)))
        if workers <= 1 or os.environ.get('VERIF_SERIAL'):
            for it in items:
                fn(self, it)
            return
        if chunksize is None:
            chunksize = max(1, min(64, len(items) // (workers * 8) or 1))
        chunks = [items[i:i + chunksize] for i in range(0, len(items), chunksize)]
        pool = _get_pool(self.workers)
        for acc in pool.imap_unordered(_run_chunk, [(fn, ch) for ch in chunks]):
            if isinstance(acc, tuple):
                raise HarnessError('worker failed:\n' + acc[1])
            self.merge(acc)


_POOL = None


def _get_pool(workers):
    """One long-lived pool of forked workers per check process (forked at the first pmap call, i.e. after the check
    has installed its patches); long-lived workers can keep expensive fixtures between tasks."""
    global _POOL
    if _POOL is None:
        import atexit
        mp = multiprocessing.get_context('fork')
        _POOL = mp.Pool(workers)
        atexit.register(_close_pool)
    return _POOL


def _close_pool():
    global _POOL
    if _POOL is not None:
        _POOL.terminate()
        _POOL.join()
        _POOL = None


def _run_chunk(arg):
    fn, chunk = arg
    acc = Acc()
    try:
        for it in chunk:
            fn(acc, it)
    except BaseException:  # noqa: BLE001
        return ('error', traceback.format_exc())
    return acc


# ----------------------------------------------------------------------------------------------
def _load_known():
    if not KNOWN_FINDINGS.exists():
        return []
    data = json.loads(KNOWN_FINDINGS.read_text())
    return data.get('findings', [])


def _write_evidence(ctx: Ctx, mod, wall: float, new_violations: int, known_hits: int):
    EVIDENCE_DIR.mkdir(exist_ok=True)
    cov = {
        'states': len(ctx.states) + ctx.counts.get('states', 0),
        'transitions': ctx.counts.get('transitions', 0),
        'traces_validated_against_impl': ctx.counts.get('traces_validated_against_impl', 0),
        'evaluations': ctx.counts.get('evaluations', 0),
        'distinct_nontrivial': len(ctx.distinct),
        'rule': ctx.rule,
        'samples': ctx.samples,
        'exhaustive': bool(ctx.exhaustive and not ctx.caps),
        'caps_hit': ctx.caps,
        'outcomes': dict(sorted(ctx.outcomes.items())),
        'counters': {k: v for k, v in sorted(ctx.counts.items())
                     if k not in ('transitions', 'traces_validated_against_impl', 'evaluations', 'states')},
        'known_findings_hit': known_hits,
        'workers': ctx.workers,
        'violation_keys': sorted(ctx.violations)[:200],
    }
    cov.update(ctx.notes)
    ev = {
        'property_id': ctx.prop,
        'tier': ctx.tier,
        'seed': ctx.seed,
        'level': 'model_checking',
        'coverage': cov,
        'assumptions': ctx.assumptions,
        'wall_s': round(wall, 3),
        'violations': new_violations,
        'technique': getattr(mod, 'TECHNIQUE', ''),
    }
    path = EVIDENCE_DIR / f'{ctx.prop}.json'
    tmp = path.with_suffix('.json.tmp')
    tmp.write_text(json.dumps(ev, indent=1, sort_keys=True, ensure_ascii=True) + '\n')
    tmp.replace(path)
    return ev


def main(argv=None):
    ap = argparse.ArgumentParser(prog='check')
    ap.add_argument('prop')
    ap.add_argument('--tier', default=os.environ.get('VERIF_TIER') or 'quick', choices=['quick', 'thorough'])
    ap.add_argument('--replay', default=None)
    ap.add_argument('--workers', type=int, default=int(os.environ.get('VERIF_WORKERS', '0')) or (os.cpu_count() or 4))
    args = ap.parse_args(argv)
    prop = args.prop.upper()
    try:
        seed = int(os.environ.get('VERIF_SEED', '0') or 0)
    except ValueError:
        seed = 0
    logging.disable(logging.CRITICAL)
    sys.setrecursionlimit(10000)
    src = str(REPO / 'src')
    for p in (str(REPO), src):
        if p not in sys.path:
            sys.path.insert(0, p)
    t0 = time.time()
    ctx = Ctx(prop, args.tier, seed, args.workers)
    try:
        mod = importlib.import_module(f'mcx.checks.{prop.lower()}')
        import sdc11073  # noqa: F401
        where = Path(sdc11073.__file__).resolve()
        if not str(where).startswith(str(REPO.resolve())):
            raise HarnessError(f'sdc11073 imported from {where}, expected under {REPO}')
        if args.replay:
            rp = json.loads(Path(args.replay).read_text())
            obs1 = mod.replay(ctx, rp['case'])
            ctx2 = Ctx(prop, args.tier, seed, args.workers)
            obs2 = mod.replay(ctx2, rp['case'])
            if _jsonable(obs1) != _jsonable(obs2):
                raise HarnessError(f'replay is not deterministic: {obs1!r} != {obs2!r}')
            print(json.dumps({'observed': _jsonable(obs1)}, indent=1)[:4000])
            if ctx.violations:
                for key in sorted(ctx.violations):
                    print(f'VIOLATION property={prop} replay={args.replay} key={key}')
                return 1
            print(f'OK property={prop} replay reproduced no violation')
            return 0
        mod.run(ctx)
    except HarnessError as ex:
        print(f'HARNESS-ERROR property={prop}: {ex}', file=sys.stderr)
        return 2
    except Exception:  # noqa: BLE001
        print(f'HARNESS-ERROR property={prop}: unexpected exception in check\n{traceback.format_exc()}',
              file=sys.stderr)
        return 2
    wall = time.time() - t0
    known = [k for k in _load_known() if k.get('property') == prop]
    known_keys = {k['key']: k for k in known}
    new, hits = [], []
    for key in sorted(ctx.violations):
        if key in known_keys:
            hits.append(key)
        else:
            new.append(key)
    ev = _write_evidence(ctx, mod, wall, len(new), len(hits))
    for key in hits:
        print(f'KNOWN-FINDING: property={prop} {key} :: {known_keys[key].get("what", "")}')
    for k in known:
        if k['key'] not in ctx.violations:
            print(f'note: known finding not reproduced in this run (tier={ctx.tier}): {k["key"]}')
    if new:
        REPLAY_DIR.mkdir(exist_ok=True)
        for key in new[:MAX_REPORTED]:
            v = ctx.violations[key]
            name = f'{prop}-{hashlib.blake2b(key.encode(), digest_size=6).hexdigest()}.json'
            path = REPLAY_DIR / name
            path.write_text(json.dumps({'property': prop, 'key': key, 'detail': v['detail'], 'case': v['case'],
                                        'tier': ctx.tier, 'seed': seed}, indent=1) + '\n')
            print(f'VIOLATION property={prop} replay={path} key={key}')
            print('  detail: ' + json.dumps(v['detail'])[:600])
        if len(new) > MAX_REPORTED:
            print(f'... and {len(new) - MAX_REPORTED} more violations (all counted in evidence)')
    cov = ev['coverage']
    print(f'{prop} tier={ctx.tier} seed={seed} states={cov["states"]} transitions={cov["transitions"]} '
          f'executions={cov["traces_validated_against_impl"]} evaluations={cov["evaluations"]} '
          f'distinct_nontrivial={cov["distinct_nontrivial"]} exhaustive={cov["exhaustive"]} '
          f'violations={len(new)} known={len(hits)} wall={wall:.1f}s')
    if ctx.outcomes:
        print('  outcomes: ' + ', '.join(f'{k}={v}' for k, v in sorted(ctx.outcomes.items())))
    return 1 if new else 0


if __name__ == '__main__':
    sys.exit(main())
