"""Exhaustive enumeration of environment choices (random draws, fault answers, ...).

`enumerate_choices(fn)` runs fn(chooser) once per leaf of the choice tree: every call
chooser.choose(n) is a choice point with domain range(n); the domain is whatever the code under
test asks for *in that execution*, so a changed call (e.g. randint(0, 5000)) is still enumerated
completely. A replayed prefix that meets a different domain is a hard harness error.
"""
from __future__ import annotations


class Diverged(Exception):
    pass


class Chooser:
    def __init__(self, prefix):
        self.prefix = list(prefix)
        self.trace = []  # (choice, domain)

    def choose(self, n: int, label: str = '') -> int:
        if n <= 0:
            raise ValueError(f'empty choice domain at {label}')
        i = len(self.trace)
        c = self.prefix[i] if i < len(self.prefix) else 0
        if c >= n:
            raise Diverged(f'replayed choice {c} outside domain {n} at point {i} {label}')
        self.trace.append((c, n))
        return c


def enumerate_choices(fn, max_runs: int | None = None):
    """Yield (choices, result) for every complete choice sequence (DFS, lexicographic)."""
    prefix = []
    runs = 0
    while True:
        ch = Chooser(prefix)
        result = fn(ch)
        runs += 1
        yield [c for c, _ in ch.trace], result
        if max_runs is not None and runs >= max_runs:
            return
        # next sequence: increment the last incrementable choice
        tr = ch.trace
        while tr and tr[-1][0] + 1 >= tr[-1][1]:
            tr.pop()
        if not tr:
            return
        prefix = [c for c, _ in tr[:-1]] + [tr[-1][0] + 1]
